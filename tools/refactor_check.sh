#!/bin/sh
# tools/refactor_check.sh [level 1|2] [props...] — behaviour-preserving renames of library internals in a scratch worktree
# (outside /repo and /verif), then every quick check against it: none may report a VIOLATION (level 1: none may be
# inconclusive either; level 2 also renames the cache loader's and calendar tables' names, where C16/C19 lose their anchors).
lvl="${1:-1}"; shift
props="${*:-C01 C02 C03 C04 C05 C06 C07 C08 C09 C10 C11 C12 C13 C14 C15 C16 C17 C18 C19 C20}"
wt="$(mktemp -d /tmp/rv-refactor-XXXXXX)"; rmdir "$wt"
git -C /repo worktree add -q --detach "$wt" HEAD || exit 2
cd "$wt" || exit 2
grep -rl "_try_absolute_parser\|pop_tz_offset_from_string\|parse_with_formats\|_try_parser\b\|_get_applicable_locales\|split_if_not_parsed\|_check_strict_parsing" dateparser | xargs sed -i 's/_try_absolute_parser/_try_abs/g; s/pop_tz_offset_from_string/pop_zone_from_string/g; s/parse_with_formats/parse_using_formats/g; s/\b_try_parser\b/_run_parser/g; s/_get_applicable_locales/_applicable_locales/g; s/split_if_not_parsed/split_unparsed/g; s/_check_strict_parsing/_enforce_strictness/g'
/venv/bin/python - <<'PY'
p='dateparser/timezone_parser.py'
s=open(p).read()
s=s.replace("    def __getinitargs__(self):\n        return self.__name, self.__offset\n","    def __reduce__(self):\n        return (StaticTzInfo, (self.__name, self.__offset))\n")
open(p,'w').write(s)
PY
if [ "$lvl" = 2 ]; then
grep -rl "_add_to_cache\|_get_dictionary\|_load_offsets\|_tz_offsets\|build_tz_offsets\|sanitize_date\|RE_SANITIZE_PERIOD\|_months\b\|_number_letters\|registry_dict\|_correct_for_time_frame\|get_date_from_timestamp\|_weekdays\b" dateparser | xargs sed -i 's/_add_to_cache/_store_in_cache/g; s/_get_dictionary/_dictionary_for/g; s/_load_offsets/_load_tz_table/g; s/\b_tz_offsets\b/_TZ_TABLE/g; s/build_tz_offsets/make_tz_table/g; s/\bsanitize_date\b/clean_date_string/g; s/RE_SANITIZE_PERIOD/RE_CLEAN_PERIOD/g; s/\b_months\b/_month_names/g; s/_number_letters/_spelled_numbers/g; s/__registry_dict/__registry/g; s/_correct_for_time_frame/_apply_time_frame/g; s/get_date_from_timestamp/date_from_timestamp/g; s/\b_weekdays\b/_weekday_names/g'
fi
git diff --stat | tail -1
PYTHONPATH="$wt" /venv/bin/python -c "import dateparser; assert dateparser.parse('12 May 2015 10:30 EST') is not None; print('renamed tree imports and parses')" || exit 2
bad=0
for p in $props; do
  VERIF_REPO="$wt" RV_EVIDENCE_DIR=/tmp/rv-refactor-evidence /verif/check $p quick > /tmp/rv-refactor-$p.log 2>&1; rc=$?
  echo "$p rc=$rc $(grep -E '^(VIOLATION|INCONCLUSIVE)' /tmp/rv-refactor-$p.log | head -1 | cut -c1-200)"
  [ $rc = 1 ] && bad=1
done
git -C /repo worktree remove --force "$wt"; rm -rf "$wt"
exit $bad
