#!/venv/bin/python
"""tools/kf.py fixed <prop> <commit> <what>   — append a 'fixed' record to known_findings.json"""
import json, sys
p = "/verif/known_findings.json"
d = json.load(open(p))
if sys.argv[1] == "fixed":
    d["findings"].append({"status": "fixed", "property": sys.argv[2], "commit": sys.argv[3], "what": sys.argv[4],
                          "line": "fixed: property=%s %s %s" % (sys.argv[2], sys.argv[3], sys.argv[4])})
json.dump(d, open(p, "w"), ensure_ascii=False, indent=1)
