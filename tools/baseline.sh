#!/bin/sh
# Runs the repository's pinned suite (hooks off: there are none) serially and compares the set of
# passing tests with BASELINE.json's stable_pass.  Usage: tools/baseline.sh [repo-dir]
repo="${1:-/repo}"
out="$(mktemp /tmp/rv-junit-XXXXXX.xml)"
cd "$repo" && /venv/bin/python -m pytest -q -p no:cacheprovider --timeout=900 --continue-on-collection-errors --junitxml="$out" >"$out.log" 2>&1
tail -3 "$out.log"
/venv/bin/python - "$out" <<'PY'
import json, sys
sys.path.insert(0, "/w/lib")
import xml.etree.ElementTree as ET
base = set(json.load(open("/root/.vp/BASELINE.json"))["stable_pass"])
passed = set()
for tc in ET.parse(sys.argv[1]).getroot().iter("testcase"):
    if not any(ch.tag in ("failure", "error", "skipped") for ch in tc):
        passed.add("%s::%s" % (tc.get("classname"), tc.get("name")))
missing = sorted(base - passed)
print("baseline stable_pass=%d passed_now=%d missing_from_now=%d" % (len(base), len(passed), len(missing)))
for m in missing[:20]:
    print("  MISSING", m)
sys.exit(1 if missing else 0)
PY
rc=$?
rm -f "$out" "$out.log"
exit $rc
