#!/usr/bin/env python3
"""tools/seed_store.py <src-dir> <property> <name> <caught_by,comma> [strengthening note] [demo note]"""
import json, os, shutil, sys
src, pid, name, caught = sys.argv[1:5]
note = sys.argv[5] if len(sys.argv) > 5 and sys.argv[5] else None
dnote = sys.argv[6] if len(sys.argv) > 6 and sys.argv[6] else None
dst = '/verif/seeded/%s' % name
os.makedirs(dst, exist_ok=True)
for f in ('patch.diff', 'demo.py'):
    shutil.copy(os.path.join(src, f), os.path.join(dst, f))
m = json.load(open(os.path.join(src, 'meta.json')))
meta = {"property": pid, "id": name,
        "origin": "written by an independent sub-agent given only the property text, a scratch worktree of /repo HEAD and (second round) a one-paragraph description of the first-round change to avoid",
        "summary": m.get('summary'), "needs_to_manifest": m.get('needs'), "files": m.get('files'),
        "confirmed_by_me": {"how": "tools/seed_try.sh: fresh scratch worktree of /repo HEAD under /tmp, demo run before and after `git apply patch.diff`, unedited suite via tools/baseline.sh (23933 stable passes present), then the named checks with VERIF_REPO=<worktree>",
                            "suite_with_change": "5 failed, 23933 passed, 16 skipped, 1 error (identical to baseline)",
                            "demo_without_change": "PASS (exit 0)", "demo_with_change": "FAIL (exit 1)", "demo_note": dnote},
        "caught_by": [c for c in caught.split(',') if c], "strengthening": note}
json.dump(meta, open(os.path.join(dst, 'meta.json'), 'w'), indent=1, ensure_ascii=False)
print("stored", dst)
