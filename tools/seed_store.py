#!/venv/bin/python
"""tools/seed_store.py <src-dir> <id> <property> <caught_by comma list|none> <needs> [strengthening]
Stores a confirmed seeded change under seeded/<id>/ (patch.diff, demo.py, notes.md, meta.json).
The try log (tools/seed_try.sh output) is read from <src-dir>/try.log when present."""
import json, os, re, shutil, sys
src, sid, prop, caught, needs = sys.argv[1:6]
strengthening = sys.argv[6] if len(sys.argv) > 6 else None
dst = os.path.join("/verif/seeded", sid)
os.makedirs(dst, exist_ok=True)
for f in ("patch.diff", "demo.py", "notes.md"):
    if os.path.exists(os.path.join(src, f)):
        shutil.copy(os.path.join(src, f), os.path.join(dst, f))
log = ""
if os.path.exists(os.path.join(src, "try.log")):
    log = open(os.path.join(src, "try.log"), errors="replace").read()
suite = re.search(r"^\d+ failed, \d+ passed.*$", log, re.M)
rcs = re.findall(r"^rc=(\d+)", log, re.M)
files = sorted(set(re.findall(r"^diff --git a/(\S+)", open(os.path.join(dst, "patch.diff")).read(), re.M)))
meta = {
    "property": prop, "id": sid, "round": int(os.environ.get("SEED_ROUND", "2")),
    "origin": "written by an independent sub-agent given only the property text and a scratch worktree of /repo HEAD (round 2: two changes per property requested)",
    "summary": "see notes.md (the sub-agent's own description)",
    "needs_to_manifest": needs, "files": files,
    "confirmed_by_me": {
        "how": "tools/seed_try.sh: fresh scratch worktree of /repo HEAD under /tmp, demo run before and after `git apply patch.diff`, unedited suite via tools/baseline.sh, then the named checks with VERIF_REPO=<worktree>",
        "suite_with_change": (suite.group(0) if suite else "?") + (" ; baseline stable_pass all present" if "missing_from_now=0" in log else " ; CHECK LOG"),
        "demo_without_change": "rc=%s" % (rcs[0] if rcs else "?"), "demo_with_change": "rc=%s" % (rcs[1] if len(rcs) > 1 else "?"),
    },
    "caught_by": [] if caught == "none" else caught.split(","),
    "strengthening": strengthening,
}
json.dump(meta, open(os.path.join(dst, "meta.json"), "w"), indent=1, ensure_ascii=False)
print("stored", dst, meta["confirmed_by_me"], meta["caught_by"])
