#!/venv/bin/python
"""tools/linecov.py Cxx [tier] — functions/lines of the property's anchor files that the last run of that check never executed
(reads .scratch/linecov/<prop>-<tier>.json written by the harness; run the check first)."""
import json
import os
import sys

here = os.path.dirname(os.path.dirname(os.path.abspath(__file__)))
sys.path.insert(0, here)
from rv import linecov  # noqa
from rv.util import repo_path  # noqa

prop = sys.argv[1]
tier = sys.argv[2] if len(sys.argv) > 2 else "quick"
merged = json.load(open(os.path.join(here, ".scratch", "linecov", "%s-%s.json" % (prop, tier))))
anchors = []
for line in open(os.path.join(here, "properties.jsonl")):
    d = json.loads(line)
    if d["id"] == prop:
        anchors = d["anchors"]["files"]
files = sys.argv[3:] or [a for a in anchors if a.endswith(".py") and "*" not in a and a.startswith("dateparser/")]
for rel in files:
    path = os.path.join(repo_path(), rel)
    exe, funcs = linecov.executable_lines(path)
    hit = set(merged.get(rel, ()))
    print("== %s: %d of %d executable lines executed" % (rel, len(hit & exe), len(exe)))
    src = open(path).read().split("\n")
    for qual, ls in sorted(funcs.items(), key=lambda kv: (kv[1][0] if kv[1] else 0)):
        miss = [l for l in ls if l not in hit]
        if not miss or not ls:
            continue
        tag = "NEVER ENTERED" if len(miss) == len(ls) else "partly"
        print("  %-60s %s  missed %d/%d: %s" % (qual, tag, len(miss), len(ls), miss[:40]))
        if tag == "partly":
            for l in miss[:12]:
                print("      %5d  %s" % (l, src[l - 1].strip()[:110]))
