#!/venv/bin/python
"""tools/seeded_all.py [--only <substr>] [--tier quick] [--jobs N]
Regression over seeded/: applies each stored patch to a scratch worktree of /repo HEAD (outside /repo and /verif) and runs
the checks named in its meta.json `caught_by` with VERIF_REPO; every one of them must report a VIOLATION."""
import argparse, json, os, sys
here = os.path.dirname(os.path.dirname(os.path.abspath(__file__)))
sys.path.insert(0, here)
from rv.selftest.run import one  # noqa

ap = argparse.ArgumentParser()
ap.add_argument("--only")
ap.add_argument("--tier", default="quick")
ap.add_argument("--jobs", type=int, default=1)
a = ap.parse_args()
from concurrent.futures import ThreadPoolExecutor

missed, n, jobs = [], 0, []
for sid in sorted(os.listdir(os.path.join(here, "seeded"))):
    d = os.path.join(here, "seeded", sid)
    if not os.path.exists(os.path.join(d, "meta.json")) or (a.only and a.only not in sid):
        continue
    meta = json.load(open(os.path.join(d, "meta.json")))
    if meta.get("expected_miss"):
        print("%-55s (recorded as not decidable by its property's check: %s)" % (sid, (meta.get("strengthening") or "")[:90]), flush=True)
        continue
    jobs.append((sid, open(os.path.join(d, "patch.diff"), "rb").read(), meta.get("caught_by") or [meta["property"]]))
with ThreadPoolExecutor(max_workers=a.jobs) as ex:
    for (sid, _, props), r in zip(jobs, ex.map(lambda j: one(j[0], j[1], j[2], tier=a.tier), jobs)):
        n += 1
        bad = [x["prop"] for x in r["results"] if not x["caught"]] if r["results"] else ["(patch does not apply)"]
        print("%-55s %s" % (sid, "; ".join("%s rc=%s n=%s %ss replay=%s" % (x["prop"], x["rc"], x["violations"], x["wall"], x.get("replay"))
                                           for x in r["results"]) or r["caught_by"]), flush=True)
        if bad:
            missed.append((sid, bad))
            print("     MISSED: %s" % bad, flush=True)
print("seeded regression: %d changes, missed: %s" % (n, missed))
sys.exit(1 if missed else 0)
