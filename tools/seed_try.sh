#!/bin/sh
# tools/seed_try.sh <src-dir with patch.diff + demo.py> <props "C01 C12"> [skip-suite]
# Verifies a seeded change in a scratch worktree (outside /repo and /verif) and runs the named checks against it.
src="$1"; props="$2"; skip="$3"
wt="$(mktemp -d /tmp/sv-XXXXXX)"; rmdir "$wt"
git -C /repo worktree add -q --detach "$wt" HEAD || exit 2
cd "$wt" || exit 2
echo "== demo on unchanged tree (expect PASS / rc 0)"
PYTHONPATH="$wt" timeout 600 /venv/bin/python "$src/demo.py" 2>&1 | tail -3; 
PYTHONPATH="$wt" timeout 600 /venv/bin/python "$src/demo.py" >/dev/null 2>&1; echo "rc=$?"
git apply "$src/patch.diff" || { echo "PATCH DOES NOT APPLY"; git -C /repo worktree remove --force "$wt"; exit 2; }
git diff --stat | tail -3
echo "== demo with the change (expect FAIL / rc 1)"
PYTHONPATH="$wt" timeout 600 /venv/bin/python "$src/demo.py" 2>&1 | tail -3
PYTHONPATH="$wt" timeout 600 /venv/bin/python "$src/demo.py" >/dev/null 2>&1; echo "rc=$?"
if [ -z "$skip" ]; then echo "== suite with the change"; /verif/tools/baseline.sh "$wt" | tail -2; fi
for p in $props; do
  echo "== check $p against the change"
  VERIF_REPO="$wt" RV_EVIDENCE_DIR=/tmp/sv-evidence /verif/check $p quick 2>&1 | grep -E "^(VIOLATION|INCONCLUSIVE|C[0-9][0-9] tier)" | head -3 | cut -c1-330
done
git -C /repo worktree remove --force "$wt"; rm -rf "$wt"
