#!/bin/sh
# tools/seed_batch.sh <out-dir e.g. /tmp/s2-C08-out/A> "<props>"  -> writes <out-dir>/try.log
/verif/tools/seed_try.sh "$1" "$2" > "$1/try.log" 2>&1
grep -E "^(rc=|[0-9]+ failed|baseline|== check|C[0-9][0-9] tier|VIOLATION|INCONCLUSIVE|PATCH)" "$1/try.log" | cut -c1-260
