#!/bin/sh
# tools/runall.sh [quick|thorough] [seed]  — run every registered check sequentially; summary at the end
tier="${1:-quick}"; seed="${2:-0}"
cd /verif
for p in C01 C02 C03 C04 C05 C06 C07 C08 C09 C10 C11 C12 C13 C14 C15 C16 C17 C18 C19 C20; do
  s=$(date +%s)
  VERIF_SEED=$seed ./check $p $tier > /tmp/rv-runall-$p.log 2>&1; rc=$?
  e=$(date +%s)
  echo "$p rc=$rc $((e-s))s $(grep -c '^KNOWN-FINDING' /tmp/rv-runall-$p.log) known; $(grep -E '^(VIOLATION|INCONCLUSIVE)' /tmp/rv-runall-$p.log | head -2 | cut -c1-200)"
done
