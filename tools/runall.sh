#!/bin/sh
# tools/runall.sh [quick|thorough] [seed] [props...] — run every registered check sequentially; summary at the end
here="$(cd "$(dirname "$0")/.." && pwd)"
tier="${1:-quick}"; seed="${2:-0}"; shift; shift
props="${*:-C01 C02 C03 C04 C05 C06 C07 C08 C09 C10 C11 C12 C13 C14 C15 C16 C17 C18 C19 C20}"
cd "$here"
mkdir -p "$here/.scratch"
for p in $props; do
  s=$(date +%s)
  log="$here/.scratch/runall-$tier-$seed-$p.log"
  VERIF_SEED=$seed ./check $p $tier > "$log" 2>&1; rc=$?
  e=$(date +%s)
  echo "$p tier=$tier seed=$seed rc=$rc $((e-s))s $(grep -c '^KNOWN-FINDING' "$log") known; $(grep -E '^(VIOLATION|INCONCLUSIVE)' "$log" | head -2 | cut -c1-400)"
done
