import sys, threading, time, collections, datetime as dt, os
import dateparser
from dateparser.search import search_dates
assert dateparser.__file__.startswith(os.environ['LIBROOT']), dateparser.__file__
mon=sys.monitoring; TOOL=mon.DEBUGGER_ID
B=dt.datetime(2012,11,13,14,15,16)
CALLS={
 'fr_num': lambda: dateparser.parse('02/03/2015',languages=['fr'],settings={'RELATIVE_BASE':B}),
 'en_num': lambda: dateparser.parse('02/03/2015',languages=['en'],settings={'RELATIVE_BASE':B}),
 'en_dmy': lambda: dateparser.parse('02/03/2015',languages=['en'],settings={'RELATIVE_BASE':B,'DATE_ORDER':'DMY'}),
 'fr_nonorm': lambda: dateparser.parse('12 février 2015',languages=['fr'],settings={'RELATIVE_BASE':B,'NORMALIZE':False}),
 'fr_norm': lambda: dateparser.parse('12 fevrier 2015',languages=['fr'],settings={'RELATIVE_BASE':B}),
 'search_fr': lambda: search_dates('Nous sommes le 02/03/2011. Hier il a plu.',languages=['fr'],settings={'RELATIVE_BASE':B}),
 'default': lambda: dateparser.parse('02/03/2015'),
 'search_en': lambda: search_dates('It was on 12 May 2015 and then yesterday again',languages=['en'],settings={'RELATIVE_BASE':B}),
 'inst_en': lambda: INST.get_date_data('02/03/2015').date_obj,
 'inst_en2': lambda: INST.get_date_data('12 May 2015').date_obj,
 'jalali': lambda: JalaliCalendar('13 مرداد 1395').get_date().date_obj,
 'fr_cache1': lambda: dateparser.parse('12 mai 2015',languages=['fr'],settings={'RELATIVE_BASE':B,'CACHE_SIZE_LIMIT':1}),
 'de_cache1': lambda: dateparser.parse('3. Januar 2011',languages=['de'],settings={'RELATIVE_BASE':B,'CACHE_SIZE_LIMIT':1,'DATE_ORDER':'DMY'}),
}
from dateparser.date import DateDataParser
from dateparser.calendars.jalali import JalaliCalendar
import functools
from convertdate import persian
persian.equinox_jd=functools.lru_cache(None)(persian.equinox_jd)
INST=DateDataParser(languages=['en'],settings={'RELATIVE_BASE':B})
LIBPFX=os.environ['LIBROOT']+'/dateparser/'
class S: pass
S.target=None; S.k=None; S.count=0; S.fired=False; S.bid=None; S.bcount=0
def on_line(code,line):
    if not code.co_filename.startswith(LIBPFX): return mon.DISABLE
    tid=threading.get_ident()
    if tid==S.bid: S.bcount+=1; return
    if tid!=S.target: return
    S.count+=1
    if S.k is not None and S.count==S.k and not S.fired:
        S.fired=True; S.loc=(code.co_filename[len(LIBPFX):],line)
        t=threading.Thread(target=S.runB); S.bthread=t; t.start()
        last=-1
        while t.is_alive():
            t.join(0.02)
            if t.is_alive():
                if S.bcount==last: S.blocked=True; break   # B made no progress: blocked on something A holds
                last=S.bcount
mon.use_tool_id(TOOL,'sched'); mon.register_callback(TOOL,mon.events.LINE,on_line); mon.set_events(TOOL,mon.events.LINE)
def run_alone(fn):
    S.target=threading.get_ident(); S.k=None; S.count=0; S.bid=None
    r=fn(); return r,S.count
def explore(na,nb,ks):
    fa,fb=CALLS[na],CALLS[nb]
    run_alone(fa); run_alone(fb); ea,L=run_alone(fa); eb,_=run_alone(fb)
    bad=collections.Counter(); ex={}; blocked=0; n=0
    for k in ks(L):
        res={}
        def runB():
            S.bid=threading.get_ident()
            try: res['B']=fb()
            except Exception as e: res['B']='EXC %r'%e
        def runA():
            S.target=threading.get_ident()
            try: res['A']=fa()
            except Exception as e: res['A']='EXC %r'%e
        S.runB=runB; S.k=k; S.count=0; S.fired=False; S.blocked=False; S.bcount=0; S.bid=None; S.bthread=None
        ta=threading.Thread(target=runA); ta.start(); ta.join(20)
        if S.bthread: S.bthread.join(20)
        if not S.fired: continue
        n+=1; blocked+=S.blocked
        if res.get('A')!=ea or res.get('B')!=eb:
            bad[S.loc]+=1; ex.setdefault(S.loc,(k,str(res.get('A')),str(res.get('B'))))
    return L,n,blocked,bad,ex
step=int(sys.argv[1]) if len(sys.argv)>1 else 7
PAIRS=[('search_fr','search_en'),('search_en','search_fr'),('inst_en','inst_en2'),('inst_en','fr_num'),('fr_num','inst_en'),('jalali','fr_num'),('fr_num','jalali'),('fr_cache1','de_cache1'),('de_cache1','fr_cache1'),('search_en','inst_en'),('inst_en','search_en')]
for na,nb in PAIRS:
    t0=time.time()
    L,n,blocked,bad,ex=explore(na,nb,lambda L: range(1,L+1,step))
    print(na,'|',nb,'lines',L,'schedules',n,'B-blocked',blocked,'violations',sum(bad.values()),'locs',len(bad),'%.1fs'%(time.time()-t0))
    for l,c in list(bad.items())[:4]: print('   ',l,c,ex[l])
