import json, random, datetime as dt, collections, time
from dateparser.date import DateDataParser
from dateparser.data.languages_info import language_order, language_locale_dict
corpus=json.load(open('/tmp/corpus_raw.json'))
rnd=random.Random(13)
B=dt.datetime(2012,11,13,14,15)
S={'RELATIVE_BASE':B}
fails=collections.Counter(); ex={}; N=0
single={}
def one(lang,s,extra=None):
    k=(lang,s,json.dumps(extra,sort_keys=True,default=str))
    if k not in single:
        st=dict(S); st.update(extra or {})
        r=DateDataParser(languages=[lang],settings=st).get_date_data(s); single[k]=(r.date_obj,r.period,r.locale)
    return single[k]
auto=DateDataParser(settings=S)
t0=time.time()
sample=rnd.sample(corpus,700)
for s,fn,lang in sample:
    N+=1
    a=auto.get_date_data(s)
    det=a.locale
    # reproducible
    if det:
        r=one(det,s)
        if r[:2]!=(a.date_obj,a.period):
            k=('autodetect not reproducible',); fails[k]+=1; ex.setdefault(k,(s,det,str(a),str(r)))
    # random subsets
    for t in range(3):
        k_=rnd.randrange(1,5)
        langs=rnd.sample(language_order[:60],k_)
        if det and rnd.random()<0.6 and det in language_order and det not in langs: langs.insert(rnd.randrange(len(langs)+1),det)
        ugo=rnd.random()<0.5
        dl=rnd.choice([None,None,['en'],['fr','en']])
        st=dict(S)
        if dl: st['DEFAULT_LANGUAGES']=dl
        try:
            m=DateDataParser(languages=langs,use_given_order=ugo,settings=st).get_date_data(s)
        except Exception as e:
            k=('EXC',type(e).__name__); fails[k]+=1; ex.setdefault(k,(s,langs,str(e))); continue
        order=langs if ugo else sorted(langs,key=language_order.index)
        exp=(None,'day',None)
        for L in order:
            r=one(L,s)
            if r[0] is not None: exp=r; break
        else:
            for L in (dl or []):
                L_order=(dl if ugo else sorted(dl,key=language_order.index))
            if dl:
                for L in (dl if ugo else sorted(dl,key=language_order.index)):
                    r=one(L,s)
                    if r[0] is not None: exp=r; break
        got=(m.date_obj,m.period,m.locale)
        if got!=exp:
            k=('composition',ugo,bool(dl)); fails[k]+=1; ex.setdefault(k,(s,langs,dl,str(got),str(exp)))
        if m.locale is not None and m.locale not in langs+(dl or []):
            k=('locale outside',); fails[k]+=1; ex.setdefault(k,(s,langs,dl,m.locale))
print('N',N,'fails',sum(fails.values()),time.time()-t0)
for k,v in sorted(fails.items(),key=lambda x:str(x))[:40]: print(k,v,ex[k])
