import random, datetime as dt, collections, calendar, sys, time, itertools
from dateparser.date import DateDataParser
rnd=random.Random(9)
MN=['January','February','March','April','May','June','July','August','September','October','November','December']
WN=['Monday','Tuesday','Wednesday','Thursday','Friday','Saturday','Sunday']
fails=collections.Counter(); ex={}; N=collections.Counter()
t0=time.time()
def rec(key,s,b,got,why):
    fails[key]+=1; ex.setdefault(key,(s,str(b),str(got),why))
for i in range(8000):
    by=rnd.randrange(1971,2067); bm=rnd.randrange(1,13)
    ml=calendar.monthrange(by,bm)[1]
    bd=rnd.choice([1,2,ml,ml-1,rnd.randrange(1,ml+1)])
    b=dt.datetime(by,bm,bd,rnd.choice([0,23,rnd.randrange(24)]),rnd.choice([0,59,rnd.randrange(60)]))
    pref=rnd.choice(['past','future','current_period'])
    p=DateDataParser(languages=['en'],settings={'RELATIVE_BASE':b,'PREFER_DATES_FROM':pref,'TIMEZONE':'UTC'})
    kind=rnd.choice(['wd','month','dm','time','yy'])
    N[kind]+=1
    if kind=='wd':
        w=rnd.randrange(7); s=WN[w] if rnd.random()<0.7 else WN[w][:3]
        r=p.get_date_data(s).date_obj
        bd0=b.replace(hour=0,minute=0,second=0,microsecond=0)
        if pref=='past': k=(b.weekday()-w)%7 or 7; exp=bd0-dt.timedelta(days=k)
        elif pref=='future': k=(w-b.weekday())%7 or 7; exp=bd0+dt.timedelta(days=k)
        else: k=(b.weekday()-w)%7; exp=bd0-dt.timedelta(days=k)
        if r!=exp: rec((kind,pref,'cross-month' if exp.month!=b.month else 'same-month'),s,b,r,str(exp))
    elif kind=='month':
        m=rnd.randrange(1,13); s=MN[m-1]
        r=p.get_date_data(s).date_obj
        ok = r is not None and r.month==m
        if ok and pref=='past': ok = r<=b
        if ok and pref=='future': ok = r>=b
        if ok and pref=='current_period': ok = r.year==b.year
        if not ok: rec((kind,pref,'m==bm' if m==bm else ''),s,b,r,'')
    elif kind=='dm':
        m=rnd.randrange(1,13); d=rnd.randrange(1,calendar.monthrange(2001,m)[1]+1); s='%d %s'%(d,MN[m-1])
        r=p.get_date_data(s).date_obj
        ok = r is not None and r.month==m and r.day==d
        if ok and pref=='past': ok = r<=b
        if ok and pref=='future': ok = r>=b
        if ok and pref=='current_period': ok = r.year==b.year
        if not ok: rec((kind,pref,'same-day' if (m,d)==(b.month,b.day) else ''),s,b,r,'')
    elif kind=='time':
        h=rnd.randrange(24); mi=rnd.randrange(60); s='%02d:%02d'%(h,mi)
        r=p.get_date_data(s).date_obj
        ok = r is not None and (r.hour,r.minute)==(h,mi)
        if ok and pref=='past': ok = r<=b and b-r<dt.timedelta(days=1)
        if ok and pref=='future': ok = r>=b and r-b<dt.timedelta(days=1)
        if ok and pref=='current_period': ok = r.date()==b.date()
        if not ok: rec((kind,pref),s,b,r,'')
    else:
        yy=rnd.randrange(100); m=rnd.randrange(1,13); d=rnd.randrange(1,29); s='%d %s %02d'%(d,MN[m-1],yy)
        r=p.get_date_data(s).date_obj
        ok = r is not None and r.month==m and r.day==d and r.year%100==yy
        if ok and pref=='past': ok = r<=b
        if ok and pref=='future': ok = r>=b
        if not ok: rec((kind,pref),s,b,r,'')
print(dict(N),'fails',sum(fails.values()),time.time()-t0)
for k,v in sorted(fails.items(),key=lambda x:-x[1])[:40]: print(k,v,ex[k])
