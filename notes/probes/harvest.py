import ast, sys, json, collections
out=collections.OrderedDict()
for fn in ['test_languages','test_date_parser','test_freshness_date_parser','test_date','test_parser','test_clean_api','test_timezone_parser','test_settings']:
    tree=ast.parse(open('/repo/tests/%s.py'%fn,encoding='utf-8').read())
    for node in ast.walk(tree):
        if isinstance(node,ast.Call) and getattr(node.func,'id',getattr(node.func,'attr',None))=='param':
            args=[a for a in node.args if isinstance(a,ast.Constant) and isinstance(a.value,str)]
            kws={k.arg:k.value.value for k in node.keywords if isinstance(k.value,ast.Constant) and isinstance(k.value.value,str)}
            lang=None; s=None
            if fn=='test_languages' and len(args)>=2: lang,s=args[0].value,args[1].value
            elif args: s=args[0].value
            for k in ('date_string','datetime_string','date','string'):
                if k in kws: s=kws[k]
            if s and len(s)<=100: out.setdefault(s,(fn,lang))
print(len(out))
c=collections.Counter(v[0] for v in out.values()); print(c)
json.dump([[k,v[0],v[1]] for k,v in out.items()],open('/tmp/corpus_raw.json','w'),ensure_ascii=False)
