import random, datetime as dt, collections, time, sys
import dateparser
from dateparser.date import DateDataParser
MN=['January','February','March','April','May','June','July','August','September','October','November','December']
MA=[m[:3] for m in MN]
WN=['Monday','Tuesday','Wednesday','Thursday','Friday','Saturday','Sunday']
def y4(d): return '%04d'%d.year
def h12(d): return (d.hour%12) or 12
def ap(d): return 'AM' if d.hour<12 else 'PM'
F={
 'iso_date': (lambda d: '%s-%02d-%02d'%(y4(d),d.month,d.day), 'day'),
 'iso_dt_space': (lambda d: '%s-%02d-%02d %02d:%02d:%02d'%(y4(d),d.month,d.day,d.hour,d.minute,d.second),'sec'),
 'iso_dt_T': (lambda d: '%s-%02d-%02dT%02d:%02d:%02d'%(y4(d),d.month,d.day,d.hour,d.minute,d.second),'sec'),
 'iso_dt_T_min': (lambda d: '%s-%02d-%02dT%02d:%02d'%(y4(d),d.month,d.day,d.hour,d.minute),'min'),
 'iso_dt_frac6': (lambda d: '%s-%02d-%02d %02d:%02d:%02d.%06d'%(y4(d),d.month,d.day,d.hour,d.minute,d.second,d.microsecond),'us'),
 'iso_dt_T_frac6': (lambda d: '%s-%02d-%02dT%02d:%02d:%02d.%06d'%(y4(d),d.month,d.day,d.hour,d.minute,d.second,d.microsecond),'us'),
 'iso_dt_frac3': (lambda d: '%s-%02d-%02d %02d:%02d:%02d.%03d'%(y4(d),d.month,d.day,d.hour,d.minute,d.second,d.microsecond//1000),'ms'),
 'rfc2822': (lambda d: '%s, %02d %s %s %02d:%02d:%02d'%(WN[d.weekday()][:3],d.day,MA[d.month-1],y4(d),d.hour,d.minute,d.second),'sec'),
 'rfc2822_nowd': (lambda d: '%d %s %s %02d:%02d:%02d'%(d.day,MA[d.month-1],y4(d),d.hour,d.minute,d.second),'sec'),
 'long_mdy': (lambda d: '%s %d, %s'%(MN[d.month-1],d.day,y4(d)),'day'),
 'long_dmy': (lambda d: '%d %s %s'%(d.day,MN[d.month-1],y4(d)),'day'),
 'abbr_mdy_12h': (lambda d: '%s %d, %s %d:%02d %s'%(MA[d.month-1],d.day,y4(d),h12(d),d.minute,ap(d)),'min'),
 'long_wd_24h': (lambda d: '%s, %s %d, %s %02d:%02d:%02d'%(WN[d.weekday()],MN[d.month-1],d.day,y4(d),d.hour,d.minute,d.second),'sec'),
 'long_dmy_12h_sec': (lambda d: '%d %s %s %d:%02d:%02d %s'%(d.day,MN[d.month-1],y4(d),h12(d),d.minute,d.second,ap(d)),'sec'),
}
def trunc(d,p):
    if p=='day': return d.replace(hour=0,minute=0,second=0,microsecond=0)
    if p=='min': return d.replace(second=0,microsecond=0)
    if p=='sec': return d.replace(microsecond=0)
    if p=='ms': return d.replace(microsecond=d.microsecond//1000*1000)
    return d
rnd=random.Random(int(sys.argv[1]) if len(sys.argv)>1 else 1)
lo=dt.datetime(1,1,1); span=(dt.datetime(9999,12,31,23,59,59,999999)-lo)
N=int(sys.argv[2]) if len(sys.argv)>2 else 3000
fails=collections.Counter(); ex={}
pen=DateDataParser(languages=['en'])
t0=time.time()
for i in range(N):
    k=rnd.random()
    if k<0.3: d=lo+dt.timedelta(days=rnd.randrange(span.days), seconds=rnd.randrange(86400), microseconds=rnd.randrange(10**6))
    elif k<0.5: d=dt.datetime(rnd.randrange(1,1000),rnd.randrange(1,13),1)+dt.timedelta(days=rnd.randrange(28),seconds=rnd.randrange(86400),microseconds=rnd.randrange(10**6))
    elif k<0.7:
        y=rnd.randrange(1,10000); m=rnd.randrange(1,13)
        import calendar
        d=dt.datetime(y,m,calendar.monthrange(y,m)[1],rnd.choice([0,11,12,23]),rnd.choice([0,59]),rnd.choice([0,59]),rnd.choice([0,1,999999,100000,500]))
    else: d=dt.datetime(rnd.randrange(1900,2100),rnd.randrange(1,13),rnd.randrange(1,29),rnd.randrange(24),rnd.randrange(60),rnd.randrange(60),rnd.randrange(10**6))
    for name,(f,p) in F.items():
        s=f(d); exp=trunc(d,p)
        for mode in ('en','auto'):
            try:
                r=pen.get_date_data(s).date_obj if mode=='en' else dateparser.parse(s)
            except Exception as e: r='EXC %r'%e
            if r!=exp:
                key=(name,mode, 'y<1000' if d.year<1000 else 'y>=1000')
                fails[key]+=1; ex.setdefault(key,(s,str(r)))
print('N',N,'time',time.time()-t0)
for k,v in sorted(fails.items()): print(k,v,ex[k])
