import functools, datetime as dt, collections, time, random
from convertdate import persian
persian.equinox_jd=functools.lru_cache(None)(persian.equinox_jd)
from dateparser.calendars.jalali import JalaliCalendar
from dateparser.calendars.jalali_parser import jalali_parser as jp
rnd=random.Random(1)
PD='۰۱۲۳۴۵۶۷۸۹'
def pers(s): return ''.join(PD[int(c)] if c.isdigit() else c for c in s)
months=list(jp._months.items()); wds=list(jp._weekdays.items())
WDIDX={'Monday':0,'Tuesday':1,'Wednesday':2,'Thursday':3,'Friday':4,'Saturday':5,'Sunday':6}
fails=collections.Counter(); ex={}; N=0
for y in (1348,1375,1395,1399,1403,1210,1499):
  for m in range(1,13):
    ml=persian.month_length(y,m)
    for d in range(1,ml+1):
        g=dt.datetime(*persian.to_gregorian(y,m,d))
        mname=rnd.choice(months[m-1][1][2])
        wd_en=[k for k,v in WDIDX.items() if v==g.weekday()][0]
        forms=[]
        for wv in dict(wds)[wd_en]:
            forms.append(('weekday',g,'%s %d %s %d'%(wv,d,mname,y)))
            forms.append(('weekday_p',g,pers('%s %d %s %d'%(wv,d,mname,y))))
        for sv in jp._number_letters[d]:
            forms.append(('spelled',g,'%s %s %d'%(sv,mname,y)))
            forms.append(('spelled_th',g,'%sم %s %d'%(sv,mname,y)))
        forms.append(('time_words',g.replace(hour=10,minute=45),'%d %s %d ساعت 10 و 45 دقیقه'%(d,mname,y)))
        forms.append(('time_colon_p',g.replace(hour=19,minute=5,second=30),pers('%d %s %d 19:05:30'%(d,mname,y))))
        for kind,e,s in forms:
            N+=1
            try:
                r=JalaliCalendar(s).get_date(); r=r.date_obj if r else None
            except Exception as ex_: r='EXC %r'%ex_
            if r!=e:
                k=(kind,); fails[k]+=1; ex.setdefault(k,[]).append((s,str(r),str(e)))
print('N',N,'fails',sum(fails.values()))
for k,v in sorted(fails.items(),key=lambda x:-x[1]): print(k,v,ex[k][:6])
