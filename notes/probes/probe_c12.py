import random, datetime as dt, collections, time, pytz, sys
import dateparser
rnd=random.Random(12)
zones=pytz.common_timezones
fails=collections.Counter(); ex={}; N=0
t0=time.time()
def unamb(z,naive):
    try: z.localize(naive,is_dst=None); return True
    except (pytz.AmbiguousTimeError,pytz.NonExistentTimeError): return False
for i in range(6000):
    A=pytz.timezone(rnd.choice(zones)); B=pytz.timezone(rnd.choice(zones))
    d=dt.datetime(rnd.randrange(1950,2038),rnd.randrange(1,13),rnd.randrange(1,29),rnd.randrange(24),rnd.randrange(60),rnd.randrange(60))
    if not unamb(A,d): continue
    inst=A.localize(d,is_dst=None)
    inB=inst.astimezone(B)
    if not unamb(B,inB.replace(tzinfo=None)): continue
    aware=rnd.choice([True,False,None])
    kind=rnd.choice(['abs','abs_strtz','fmt','ts','rel'])
    st={'TIMEZONE':A.zone,'TO_TIMEZONE':B.zone}
    if aware is not None: st['RETURN_AS_TIMEZONE_AWARE']=aware
    kw={}
    strtz=False
    if kind=='abs': s=d.strftime('%Y-%m-%d %H:%M:%S'); exp=inB
    elif kind=='abs_strtz':
        # string carries own zone: UTC offset of inst
        off=inst.utcoffset(); tot=int(off.total_seconds())//60
        if tot%15 or abs(tot)>14*60: continue
        sg='+' if tot>=0 else '-'; s=d.strftime('%Y-%m-%d %H:%M:%S')+' %s%02d:%02d'%(sg,abs(tot)//60,abs(tot)%60); exp=inB; strtz=True
        st={'TIMEZONE':rnd.choice(zones),'TO_TIMEZONE':B.zone}
        if aware is not None: st['RETURN_AS_TIMEZONE_AWARE']=aware
    elif kind=='fmt': s=d.strftime('%d/%m/%Y %H-%M-%S'); kw['date_formats']=['%d/%m/%Y %H-%M-%S']; exp=inB
    elif kind=='ts':
        if inst.year<2002: continue
        s=str(int(inst.timestamp())); exp=inB
    else:
        s='2 days ago'; st['RELATIVE_BASE']=d+dt.timedelta(days=2)
        if not unamb(A,st['RELATIVE_BASE']): continue
        # base interpreted in TIMEZONE A; result = base-2days in A (wall arithmetic), converted to B
        baseA=A.localize(st['RELATIVE_BASE'],is_dst=None)
        exp=None # compute: (baseA - 2 days) as aware arithmetic (same tzinfo) then astimezone(B)
        exp=(baseA-dt.timedelta(days=2)).astimezone(B)
    try: r=dateparser.parse(s,languages=['en'],settings=st,**kw)
    except Exception as e: r='EXC %r'%e
    N+=1
    want_aware = aware is True or (aware is None and strtz)
    ok=isinstance(r,dt.datetime)
    if ok:
        if want_aware: ok = r.tzinfo is not None and r==exp and r.replace(tzinfo=None)==exp.replace(tzinfo=None)
        else: ok = r.tzinfo is None and r==exp.replace(tzinfo=None)
    if not ok:
        k=(kind,aware); fails[k]+=1; ex.setdefault(k,(s,st,str(r),str(exp)))
print('N',N,'fails',sum(fails.values()),time.time()-t0)
for k,v in sorted(fails.items(),key=lambda x:str(x))[:40]: print(k,v,ex[k])
