import sys, time, collections, datetime as dt, json
from dateparser.date import DateDataParser
from dateparser.data.languages_info import language_order, language_locale_dict
from dateparser.languages.loader import LocaleDataLoader
from dateparser.utils import normalize_unicode
MONTHS=["january","february","march","april","may","june","july","august","september","october","november","december"]
WD=["monday","tuesday","wednesday","thursday","friday","saturday","sunday"]
loader=LocaleDataLoader()
base=dt.datetime(2021,6,16,10,30)
fails=collections.Counter(); total=0; amb=0
faillist=[]
t0=time.time()
langs=language_order if len(sys.argv)<2 else sys.argv[1:]
for lang in langs:
    loc=loader.get_locale(lang)
    info=loc.info
    # meaning map
    meaning=collections.defaultdict(set)
    for k,v in info.items():
        if isinstance(v,list) and k not in ('simplifications','skip','pertain','sentence_splitter_group') :
            for w in v:
                if isinstance(w,str): meaning[w.lower()].add(k)
    for w in info.get('skip',[]): meaning[w.lower()].add('skip')
    for w in info.get('pertain',[]): meaning[w.lower()].add('pertain')
    for k,v in info.get('relative-type',{}).items():
        for w in v: meaning[w.lower()].add('rel:'+k)
    p=DateDataParser(languages=[lang],settings={'RELATIVE_BASE':base,'PREFER_DATES_FROM':'past'})
    for mi,m in enumerate(MONTHS):
        for w in info.get(m,[]):
            if len(meaning[w.lower()])!=1: amb+=1; continue
            total+=1
            s='13 %s 2015'%w
            try:
                r=p.get_date_data(s).date_obj
            except Exception as e:
                r='EXC %r'%e
            if r!=dt.datetime(2015,mi+1,13):
                fails[lang]+=1; faillist.append((lang,m,w,str(r)))
    for wi,m in enumerate(WD):
        for w in info.get(m,[]):
            if len(meaning[w.lower()])!=1: amb+=1; continue
            total+=1
            try:
                r=p.get_date_data(w).date_obj
            except Exception as e:
                r='EXC %r'%e
            ok=isinstance(r,dt.datetime) and r.weekday()==wi and 0<=(base.date()-r.date()).days<=7
            if not ok:
                fails[lang]+=1; faillist.append((lang,m,w,str(r)))
print('total',total,'amb',amb,'fails',sum(fails.values()),'langs with fails',len(fails),'time',time.time()-t0)
json.dump(faillist,open('/tmp/c05_fails.json','w'),ensure_ascii=False,indent=0)
for f in faillist[:80]: print(f)
