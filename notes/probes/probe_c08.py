import random, datetime as dt, collections, calendar, sys, time, itertools
from dateparser.date import DateDataParser
rnd=random.Random(7)
MN=['January','February','March','April','May','June','July','August','September','October','November','December']
prefs=['first','last','current']
fails=collections.Counter(); ex={}; N=0
t0=time.time()
def clampday(y,m,d): return min(d,calendar.monthrange(y,m)[1])
for i in range(5000):
    y=rnd.choice([rnd.randrange(1,10000),rnd.randrange(1900,2100),rnd.choice([1900,2000,2100,1600,4,100,400])])
    m=rnd.randrange(1,13)
    by=rnd.randrange(1900,2100); bm=rnd.randrange(1,13); bd=rnd.choice([28,29,30,31,rnd.randrange(1,32)]); bd=clampday(by,bm,bd)
    b=dt.datetime(by,bm,bd,rnd.randrange(24),rnd.randrange(60))
    pd=rnd.choice(prefs); pm=rnd.choice(prefs)
    rtp=rnd.random()<0.3
    st={'RELATIVE_BASE':b,'PREFER_DAY_OF_MONTH':pd,'PREFER_MONTH_OF_YEAR':pm,'RETURN_TIME_AS_PERIOD':rtp}
    p=DateDataParser(languages=['en'],settings=st)
    kind=rnd.choice(['my','y','full','my_num','full_time','my2'])
    if kind=='my':
        s='%s %04d'%(MN[m-1],y); em=m
        ed={'first':1,'last':calendar.monthrange(y,m)[1],'current':clampday(y,m,b.day)}[pd]; exp=(dt.datetime(y,m,ed),'month')
    elif kind=='my2':
        s='%s %04d'%(MN[m-1][:3],y)
        ed={'first':1,'last':calendar.monthrange(y,m)[1],'current':clampday(y,m,b.day)}[pd]; exp=(dt.datetime(y,m,ed),'month')
    elif kind=='my_num':
        s='%02d/%04d'%(m,y)
        ed={'first':1,'last':calendar.monthrange(y,m)[1],'current':clampday(y,m,b.day)}[pd]; exp=(dt.datetime(y,m,ed),'month')
    elif kind=='y':
        if y<1000: y+=1000
        s='%04d'%y
        em={'first':1,'last':12,'current':b.month}[pm]
        ed={'first':1,'last':calendar.monthrange(y,em)[1],'current':clampday(y,em,b.day)}[pd]; exp=(dt.datetime(y,em,ed),'year')
    elif kind=='full':
        d=rnd.randrange(1,calendar.monthrange(y,m)[1]+1)
        s='%d %s %04d'%(d,MN[m-1],y); exp=(dt.datetime(y,m,d),'day')
    else:
        d=rnd.randrange(1,calendar.monthrange(y,m)[1]+1)
        s='%d %s %04d 10:15'%(d,MN[m-1],y); exp=(dt.datetime(y,m,d,10,15),'time' if rtp else 'day')
    try: r=p.get_date_data(s); got=(r.date_obj,r.period)
    except Exception as e: got=('EXC %r'%e,None)
    N+=1
    if got!=exp:
        key=(kind,pd,pm,'y<1000' if y<1000 else ''); fails[key]+=1; ex.setdefault(key,(s,str(b),str(got),str(exp)))
print('N',N,'fails',sum(fails.values()),time.time()-t0)
for k,v in sorted(fails.items(),key=lambda x:-x[1])[:40]: print(k,v,ex[k])
