import random, datetime as dt, collections, calendar, sys, time, itertools
import dateparser
from dateparser.date import DateDataParser
from dateparser.data.languages_info import language_order, language_locale_dict
from dateparser.languages.loader import LocaleDataLoader
rnd=random.Random(5)
orders=['DMY','DYM','MDY','MYD','YDM','YMD']
seps=['-','/','.',' ']
fails=collections.Counter(); ex={}
N=0
t0=time.time()
parsers={}
for o in orders:
  for pl in (True,False):
    parsers[o,pl]=DateDataParser(languages=['en'],settings={'DATE_ORDER':o,'PREFER_LOCALE_DATE_ORDER':pl})
for i in range(6000):
    y=rnd.choice([rnd.randrange(1000,10000), rnd.randrange(1,1000), rnd.choice([1,12,31,32,99,100,1999,2000,2024])])
    m=rnd.randrange(1,13); d=rnd.randrange(1,calendar.monthrange(y,m)[1]+1)
    if rnd.random()<0.3: d=calendar.monthrange(y,m)[1]
    o=rnd.choice(orders); sep=rnd.choice(seps); pad=rnd.random()<0.7
    f={'D':('%02d' if pad else '%d')%d,'M':('%02d' if pad else '%d')%m,'Y':'%04d'%y}
    s=sep.join(f[c] for c in o)
    tsuf=rnd.choice(['',' 10:45',' 23:59:59'])
    s2=s+tsuf
    p=parsers[o,rnd.random()<0.5]
    exp=dt.datetime(y,m,d)
    if tsuf: 
        t=[int(x) for x in tsuf.strip().split(':')]; exp=exp.replace(hour=t[0],minute=t[1],second=t[2] if len(t)>2 else 0)
    try: r=p.get_date_data(s2).date_obj
    except Exception as e: r='EXC %r'%e
    N+=1
    if r!=exp:
        key=(o,sep,'y<1000' if y<1000 else '', bool(tsuf)); fails[key]+=1; ex.setdefault(key,(s2,str(r)))
print('explicit order N',N,'fails',sum(fails.values()),time.time()-t0)
for k,v in sorted(fails.items(),key=lambda x:-x[1])[:40]: print(k,v,ex[k])
# locale default order
loader=LocaleDataLoader()
fails2=[]; N2=0
ordc=collections.Counter()
for lang in language_order:
    for loc in [lang]+language_locale_dict[lang]:
        L=loader.get_locale(loc)
        lo=L.info.get('date_order')
        ordc[lo]+=1
        for pl in (True,False):
            o=(lo or 'MDY') if pl else 'MDY'
            kw={'languages':[lang]} if loc==lang else {'locales':[loc]}
            p=DateDataParser(settings={'PREFER_LOCALE_DATE_ORDER':pl},**kw)
            for (y,m,d) in [(2015,2,3),(1999,11,12),(2020,12,1)]:
              for sep in ['-','/','.']:
                f={'D':'%02d'%d,'M':'%02d'%m,'Y':'%04d'%y}
                s=sep.join(f[c] for c in o)
                try: r=p.get_date_data(s).date_obj
                except Exception as e: r='EXC %r'%e
                N2+=1
                if r!=dt.datetime(y,m,d): fails2.append((loc,lo,pl,s,str(r)))
print('locale order N',N2,'fails',len(fails2),ordc, time.time()-t0)
c=collections.Counter((f[0]) for f in fails2); print(len(c),c.most_common(50))
for f in fails2[:40]: print(f)
