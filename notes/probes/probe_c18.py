import random, datetime as dt, collections, time, json, sys, unicodedata
import regex as re
from dateparser.date import DateDataParser
corpus=json.load(open('/tmp/corpus_raw.json'))
rnd=random.Random(18)
B=dt.datetime(2012,11,13,14,15,16)
S={'RELATIVE_BASE':B}
zeros=[c for c in range(0x110000) if unicodedata.category(chr(c))=='Nd' and unicodedata.digit(chr(c))==0]
print('digit blocks',len(zeros))
def todig(s,z): return ''.join(chr(z+int(c)) if c in '0123456789' else c for c in s)
WS={
 'pad': lambda s:'  '+s+'   ',
 'double': lambda s:s.replace(' ','  '),
 'tab': lambda s:s.replace(' ','\t'),
 'nl': lambda s:s.replace(' ','\n'),
 'nbsp': lambda s:s.replace(' ','\xa0'),
 'mixed': lambda s:s.replace(' ',' \t\xa0 '),
 'padnl': lambda s:'\n'+s+'\t\n',
 'colon': lambda s:s+':',
}
fails=collections.Counter(); ex={}; N=0
t0=time.time()
auto=DateDataParser(settings=S)
ps={}
def P(lang):
    if lang not in ps: ps[lang]=DateDataParser(languages=[lang],settings=S) if lang else auto
    return ps[lang]
for s,fn,lang in rnd.sample(corpus,900):
    p=P(lang)
    try: r0=p.get_date_data(s)
    except Exception as e: continue
    base=(r0.date_obj,r0.period,r0.locale)
    for name,f in WS.items():
        s2=f(s)
        if s2==s: continue
        N+=1
        try: r=p.get_date_data(s2); got=(r.date_obj,r.period,r.locale)
        except Exception as e: got=('EXC',type(e).__name__)
        if got!=base: k=('ws',name); fails[k]+=1; ex.setdefault(k,[]).append((s,lang,str(base[0]),str(got[0])))
    if any(c in '0123456789' for c in s):
        for z in rnd.sample(zeros,4)+[0x660,0x6F0,0xFF10]:
            s2=todig(s,z); N+=1
            try: r=p.get_date_data(s2); got=(r.date_obj,r.period,r.locale)
            except Exception as e: got=('EXC',type(e).__name__)
            if got!=base: k=('digits',); fails[k]+=1; ex.setdefault(k,[]).append((s,lang,hex(z),str(base[0]),str(got[0])))
print('N',N,'fails',sum(fails.values()),time.time()-t0)
for k,v in sorted(fails.items(),key=lambda x:-x[1])[:40]: print(k,v,ex[k][:8])
json.dump({str(k):v for k,v in ex.items()},open('/tmp/c18_fails.json','w'),ensure_ascii=False,indent=0)
