import collections, datetime as dt, time, json
import dateparser
from dateparser.data.languages_info import language_order
from dateparser.languages.loader import LocaleDataLoader
MONTHS=["january","february","march","april","may","june","july","august","september","october","november","december"]
WD=["monday","tuesday","wednesday","thursday","friday","saturday","sunday"]
loader=LocaleDataLoader()
known=set(tuple(x[:3]) for x in json.load(open('/tmp/c05_fails.json')))
fails=[]; N=0; t0=time.time()
for lang in language_order:
    info=loader.get_locale(lang).info
    meaning=collections.defaultdict(set)
    for k,v in info.items():
        if isinstance(v,list) and k not in ('simplifications',):
            for w in v:
                if isinstance(w,str): meaning[w.lower()].add(k)
    for k,v in info.get('relative-type',{}).items():
        for w in v: meaning[w.lower()].add('rel:'+k)
    for mi,m in enumerate(MONTHS):
        for w in info.get(m,[]):
            if len(meaning[w.lower()])!=1: continue
            for fmt,s,exp in (('%d %B %Y','17 %s 2013'%w,dt.datetime(2013,mi+1,17)),('%Y/%B/%d %H:%M','2013/%s/17 10:45'%w,dt.datetime(2013,mi+1,17,10,45))):
                N+=1
                try:
                    r=dateparser.parse(s,date_formats=[fmt],languages=[lang],settings={'PARSERS':['custom-formats']})
                except Exception as e: r='EXC %r'%e
                if r!=exp: fails.append((lang,m,w,fmt,str(r),(lang,m,w) in known))
print('N',N,'fails',len(fails),time.time()-t0)
c=collections.Counter((f[0]) for f in fails); print(len(c),c.most_common(60))
print(sum(1 for f in fails if not f[5]),'not in c05 known')
for f in fails[:50]: print(f)
