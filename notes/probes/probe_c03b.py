import sys, datetime as dt
B=dt.datetime(2012,11,13,14,15,16)
from dateparser.search import search_dates
import dateparser
mode=sys.argv[1]
t='Rendez-vous le 12 févr. 2015 à Paris. Puis le 3 janv. 2016.'
if mode=='A':
    print(search_dates(t,languages=['fr'],settings={'RELATIVE_BASE':B}))
elif mode=='B':
    search_dates('Bonjour le 1 mars 2011',languages=['fr'],settings={'RELATIVE_BASE':B,'NORMALIZE':False})
    print(search_dates(t,languages=['fr'],settings={'RELATIVE_BASE':B}))
elif mode=='C':
    search_dates('Bonjour le 1 mars 2011',languages=['fr'],settings={'RELATIVE_BASE':B,'SKIP_TOKENS':['Paris.','rendez-vous','Puis']})
    print(search_dates(t,languages=['fr'],settings={'RELATIVE_BASE':B}))
elif mode=='D':
    st={'RELATIVE_BASE':B,'NORMALIZE':False}
    print(dateparser.parse('12 fevrier 2015',languages=['fr'],settings=st))
    search_dates('hier et 12 février 2015',settings=st)   # autodetect -> NORMALIZE=True side effect on shared settings object
    print(st, dateparser.parse('12 fevrier 2015',languages=['fr'],settings=st))
    from dateparser.conf import Settings
elif mode=='E':
    # default-settings call after search with detection
    print(dateparser.parse('12 fevrier 2015'))
    search_dates('hier et 12 février 2015')
    print(dateparser.parse('12 fevrier 2015'))
