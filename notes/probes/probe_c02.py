import random, datetime as dt, collections, time, json, sys, traceback, pytz
import dateparser
from dateparser.date import DateDataParser
from dateparser.conf import SettingValidationError
from dateparser.data.languages_info import language_order, language_locale_dict
from dateparser.timezones import timezone_info_list
corpus=[c[0] for c in json.load(open('/tmp/corpus_raw.json'))]
rnd=random.Random(int(sys.argv[1]) if len(sys.argv)>1 else 2)
N=int(sys.argv[2]) if len(sys.argv)>2 else 4000
abbr=[n for i in timezone_info_list[1:] for n,_ in i['timezones']]
tzs=list(pytz.common_timezones)+abbr+['+0530','-1200','UTC+14','UTC-09:30','local','Local','GMT+3']
toks=['ago','in','am','pm','t','z','utc','gmt','+','-',':','.','/',',','st','nd','th','of','at','on','year','month','week','day','hour','minute','second','decade','now','today','yesterday','tomorrow','jan','feb','mar','may','december','monday','fri','sat','noon','midnight','a','an','one','29','30','31','32','0','00','12','13','24','60','99','100','1969','2068','9999','10000','0000','0001','1e5','1.5','2,5','--','::','()','[]','{}','<>','\\','%','%d','\x00','\u200e','\xa0','\n','\t','’','٣','١٢','௧','𝟙','²','½','Ⅳ','一','月','日','年','時','분','초','+05:30','-0500','+9999','EST','(EST)','PST8PDT','Z']
def mutate(s):
    for _ in range(rnd.randrange(1,4)):
        k=rnd.random()
        if not s: s=rnd.choice(toks); continue
        i=rnd.randrange(len(s))
        if k<0.2: s=s[:i]+s[i+1:]
        elif k<0.4: s=s[:i]+rnd.choice(toks)+s[i:]
        elif k<0.5: s=s[:i]+s[i:][::-1]
        elif k<0.6: s=s[:i]+chr(rnd.choice([rnd.randrange(32,127),rnd.randrange(0x80,0x3000),rnd.randrange(0x3000,0xffff),rnd.randrange(0x10000,0x1ffff)]))+s[i+1:]
        elif k<0.7: s=s+' '+rnd.choice(corpus)
        elif k<0.8: s=s.upper() if rnd.random()<0.5 else s.swapcase()
        elif k<0.9: s=''.join(rnd.choice('0123456789') if c.isdigit() else c for c in s)
        else: s=s.replace(' ',rnd.choice(['','  ','-','/','.',':','\t']))
    return s[:100]
def gen_string():
    k=rnd.random()
    if k<0.45: return mutate(rnd.choice(corpus))
    if k<0.7: return rnd.choice(['',' ']).join(rnd.choice(toks) for _ in range(rnd.randrange(1,9)))[:100]
    if k<0.85: return ''.join(rnd.choice('0123456789 -/.:,+TZ') for _ in range(rnd.randrange(1,30)))
    return ''.join(chr(rnd.choice([rnd.randrange(32,127),rnd.randrange(0x80,0x800),rnd.randrange(0x800,0xffff)])) for _ in range(rnd.randrange(0,40)))
def gen_base():
    k=rnd.random()
    if k<0.25: return rnd.choice([dt.datetime.min,dt.datetime.max,dt.datetime(1,1,1,0,0,1),dt.datetime(9999,12,31),dt.datetime(1,12,31),dt.datetime(9999,1,1),dt.datetime(1970,1,1),dt.datetime(2000,2,29),dt.datetime(1900,1,1)])
    d=dt.datetime(rnd.randrange(1,10000),rnd.randrange(1,13),rnd.randrange(1,29),rnd.randrange(24),rnd.randrange(60))
    if rnd.random()<0.3: d=pytz.timezone(rnd.choice(pytz.common_timezones)).localize(d) if 2<d.year<9998 else d.replace(tzinfo=dt.timezone.utc)
    return d
def gen_settings():
    st={}
    opts={'DATE_ORDER':lambda:rnd.choice(['DMY','DYM','MDY','MYD','YDM','YMD']),'PREFER_LOCALE_DATE_ORDER':lambda:rnd.random()<0.5,'TIMEZONE':lambda:rnd.choice(tzs),'TO_TIMEZONE':lambda:rnd.choice(tzs[:-4]+['UTC']),
          'RETURN_AS_TIMEZONE_AWARE':lambda:rnd.random()<0.5,'PREFER_MONTH_OF_YEAR':lambda:rnd.choice(['current','first','last']),'PREFER_DAY_OF_MONTH':lambda:rnd.choice(['current','first','last']),
          'PREFER_DATES_FROM':lambda:rnd.choice(['current_period','past','future']),'RELATIVE_BASE':gen_base,'STRICT_PARSING':lambda:rnd.random()<0.5,
          'REQUIRE_PARTS':lambda:rnd.sample(['day','month','year'],rnd.randrange(0,4)),'SKIP_TOKENS':lambda:rnd.sample(['t','xyz','at','.',':','12',' ','','a','(',')'],rnd.randrange(0,4)),
          'NORMALIZE':lambda:rnd.random()<0.5,'RETURN_TIME_AS_PERIOD':lambda:rnd.random()<0.5,
          'PARSERS':lambda:rnd.sample(['timestamp','negative-timestamp','relative-time','custom-formats','absolute-time','no-spaces-time'],rnd.randrange(0,7)),
          'DEFAULT_LANGUAGES':lambda:rnd.sample(language_order,rnd.randrange(0,3)),'LANGUAGE_DETECTION_CONFIDENCE_THRESHOLD':lambda:rnd.random(),'CACHE_SIZE_LIMIT':lambda:rnd.choice([0,1,2,5,1000,-1]),'FUZZY':lambda:rnd.random()<0.5}
    for k in rnd.sample(list(opts),rnd.randrange(0,6)): st[k]=opts[k]()
    return st
DIR='aAbBdHIjmMpSyYf'
def gen_formats():
    if rnd.random()<0.7: return None
    out=[]
    for _ in range(rnd.randrange(1,3)):
        ds=rnd.sample(DIR,rnd.randrange(1,6)); out.append(rnd.choice([' ','-','/','',':']).join('%'+d for d in ds))
    return out
fails=collections.Counter(); ex={}; outcomes=collections.Counter()
t0=time.time()
for i in range(N):
    s=gen_string(); st=gen_settings(); fm=gen_formats()
    kw={}
    k=rnd.random()
    if k<0.35: kw['languages']=rnd.sample(language_order,rnd.randrange(1,4))
    elif k<0.45:
        l=rnd.choice([x for x in language_order if language_locale_dict[x]]); kw['locales']=[rnd.choice(language_locale_dict[l])]
    elif k<0.55: kw['languages']=rnd.sample(language_order[:30],2); kw['region']=rnd.choice(['US','CA','IN','BE','001','XX'])
    try:
        r=dateparser.parse(s,date_formats=fm,settings=st or None,**kw)
        if not (r is None or isinstance(r,dt.datetime)): raise AssertionError('bad type %r'%type(r))
        outcomes['none' if r is None else 'dt']+=1
        p=DateDataParser(settings=st or None,**{k_:v for k_,v in kw.items()})
        dd=p.get_date_data(s,fm)
        assert dd.period in ('time','day','week','month','year'),dd
        assert (dd.date_obj is None)==(dd.locale is None) or fm, dd
    except (SettingValidationError,) as e: outcomes['SVE']+=1
    except Exception as e:
        tb=traceback.extract_tb(e.__traceback__)[-1]
        k=(type(e).__name__,'%s:%d'%(tb.filename.split('/')[-1],tb.lineno)); fails[k]+=1; ex.setdefault(k,(s,st,fm,kw,str(e)[:100]))
print('N',N,dict(outcomes),'fails',sum(fails.values()),time.time()-t0)
for k,v in sorted(fails.items(),key=lambda x:-x[1])[:40]: print(k,v,ex[k])
