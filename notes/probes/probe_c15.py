import random, datetime as dt, collections, time
from convertdate import persian
from hijridate import Hijri
from dateparser.calendars.jalali import JalaliCalendar
from dateparser.calendars.hijri import HijriCalendar
from dateparser.calendars.jalali_parser import jalali_parser
import functools
persian.equinox_jd=functools.lru_cache(None)(persian.equinox_jd)
rnd=random.Random(15)
fails=collections.Counter(); ex={}; N=0
t0=time.time()
PD='۰۱۲۳۴۵۶۷۸۹'
def pers(s): return ''.join(PD[int(c)] if c.isdigit() else c for c in s)
months=list(jalali_parser._months.items())
prev=None
for y in range(1200,1501,23):
    for m in range(1,13):
        ml=persian.month_length(y,m)
        for d in range(1,ml+1):
            g=dt.datetime(*persian.to_gregorian(y,m,d))
            forms=[('num','%04d/%02d/%02d'%(y,m,d)),('num-','%04d-%02d-%02d'%(y,m,d)),('pnum',pers('%04d/%02d/%02d'%(y,m,d)))]
            for nm in months[m-1][1][2]:
                forms.append(('name','%d %s %d'%(d,nm,y)))
                forms.append(('pname',pers('%d %s %d'%(d,nm,y))))
            forms.append(('time','%d %s %d 10:45'%(d,months[m-1][1][2][0],y)))
            for kind,s in forms:
                N+=1
                try:
                    r=JalaliCalendar(s).get_date(); r=r.date_obj if r else None
                except Exception as e: r='EXC %r'%e
                e=g.replace(hour=10,minute=45) if kind=='time' else g
                if r!=e:
                    k=(kind,'d%d'%d if d>=29 else ''); fails[k]+=1; ex.setdefault(k,(s,str(r),str(e)))
print('jalali N',N,'fails',sum(fails.values()),time.time()-t0)
for k,v in sorted(fails.items(),key=lambda x:str(x))[:40]: print(k,v,ex[k])
fails.clear(); ex.clear(); N=0
for y in range(1343,1501,9):
    for m in range(1,13):
        ml=Hijri(y,m,1).month_length()
        for d in range(1,ml+1):
            g=dt.datetime(*Hijri(y,m,d).to_gregorian().datetuple())
            for kind,s in (('num','%02d-%02d-%04d'%(d,m,y)),('num/','%04d/%02d/%02d'%(y,m,d)),('time','%02d-%02d-%04d 09:05 مساءً'%(d,m,y))):
                N+=1
                try:
                    r=HijriCalendar(s).get_date(); r=r.date_obj if r else None
                except Exception as e: r='EXC %r'%e
                e=g.replace(hour=21,minute=5) if kind=='time' else g
                if r!=e:
                    k=(kind,'d%d'%d if d>=29 else ''); fails[k]+=1; ex.setdefault(k,(s,str(r),str(e)))
print('hijri N',N,'fails',sum(fails.values()),time.time()-t0)
for k,v in sorted(fails.items(),key=lambda x:str(x))[:40]: print(k,v,ex[k])
