import sys, time, collections, datetime as dt, json
from dateparser.date import DateDataParser
from dateparser.data.languages_info import language_order, language_locale_dict
from dateparser.languages.loader import LocaleDataLoader
from dateparser.utils import normalize_unicode
MONTHS=["january","february","march","april","may","june","july","august","september","october","november","december"]
WD=["monday","tuesday","wednesday","thursday","friday","saturday","sunday"]
loader=LocaleDataLoader()
base=dt.datetime(2021,6,16,10,30)
res={}
for norm in (True,False):
  fails=[]; total=0; amb=0
  for lang in language_order:
    for locn in [lang]+language_locale_dict[lang]:
        loc=loader.get_locale(locn); info=loc.info
        N=(lambda w: normalize_unicode(w.lower())) if norm else (lambda w:w.lower())
        meaning=collections.defaultdict(set)
        for k,v in info.items():
            if isinstance(v,list) and k not in ('simplifications',):
                for w in v:
                    if isinstance(w,str): meaning[N(w)].add(k)
        for k,v in info.get('relative-type',{}).items():
            for w in v: meaning[N(w)].add('rel:'+k)
        kw={'languages':[lang]} if locn==lang else {'locales':[locn]}
        p=DateDataParser(settings={'RELATIVE_BASE':base,'PREFER_DATES_FROM':'past','NORMALIZE':norm},**kw)
        parent=loader.get_locale(lang).info if locn!=lang else None
        for mi,m in enumerate(MONTHS+WD):
            for w in info.get(m,[]):
                if parent is not None and w in parent.get(m,[]): continue   # only locale-specific additions for regional locales
                if len(meaning[N(w)])!=1: amb+=1; continue
                total+=1
                if mi<12:
                    r=p.get_date_data('13 %s 2015'%w).date_obj; ok=r==dt.datetime(2015,mi+1,13)
                else:
                    r=p.get_date_data(w).date_obj; ok=isinstance(r,dt.datetime) and r.weekday()==mi-12 and 0<=(base.date()-r.date()).days<=7
                if not ok: fails.append((locn,m,w,str(r)))
  print('NORMALIZE',norm,'total',total,'amb',amb,'fails',len(fails),'locs',len(set(f[0] for f in fails)))
  res[norm]=fails
json.dump(res,open('/tmp/c05b.json','w'),ensure_ascii=False)
a=set(map(tuple,res[True])); b=set(map(tuple,res[False]))
print('only norm',len(set(x[:3] for x in a)-set(x[:3] for x in b)),'only nonorm',len(set(x[:3] for x in b)-set(x[:3] for x in a)))
for f in sorted(set(x[:3] for x in b)-set(x[:3] for x in a))[:30]: print(f)
