import random, datetime as dt, collections, time, json, traceback, sys
import regex as re
from dateparser.search import search_dates
from dateparser.data.languages_info import language_order
from dateparser.languages.loader import LocaleDataLoader
loader=LocaleDataLoader()
corpus=json.load(open('/tmp/corpus_raw.json'))
bylang=collections.defaultdict(list)
for s,fn,l in corpus:
    if l: bylang[l].append(s)
rnd=random.Random(int(sys.argv[1]) if len(sys.argv)>1 else 17)
fill=['The meeting is', 'we met', 'and then', 'xyz', 'report', '...', 'on', '(see)', 'à', '。', '\n', 'at', '-', ',', ';']
fails=collections.Counter(); ex={}; N=0; hits=0
t0=time.time()
def vocab(lang):
    info=loader.get_locale(lang).info
    out=[]
    for k,v in info.items():
        if isinstance(v,list):
            out+= [w for w in v if isinstance(w,str)]
    for k,v in info.get('relative-type',{}).items(): out+=v
    return out
def norm_ws(s): return re.sub(r'\s+','',s)
for lang in language_order:
    voc=vocab(lang)
    for t in range(int(sys.argv[2]) if len(sys.argv)>2 else 12):
        parts=[]
        for j in range(rnd.randrange(1,6)):
            c=rnd.random()
            if c<0.35 and voc: parts.append(rnd.choice(voc))
            elif c<0.5 and bylang.get(lang): parts.append(rnd.choice(bylang[lang]))
            elif c<0.7: parts.append(rnd.choice(['12','2015','3','10:45','1/2/2015','31.12.99','٣']))
            elif c<0.8: parts.append('%d %s %d'%(rnd.randrange(1,29), rnd.choice(voc) if voc else 'May', rnd.randrange(1990,2030)))
            else: parts.append(rnd.choice(fill))
        text=rnd.choice([' ','  ',', ','. ','\n','']).join(parts)[:300]
        if rnd.random()<0.2: text=text+rnd.choice(['.','!','。',' ',''])
        for langs in ([lang],None):
            N+=1
            kw={}
            if rnd.random()<0.5: kw['settings']={'RELATIVE_BASE':dt.datetime(2020,2,29,12,0)}
            adl=rnd.random()<0.5
            try: r=search_dates(text,languages=langs,add_detected_language=adl,**kw)
            except Exception as e:
                tb=traceback.extract_tb(e.__traceback__)[-1]
                k=('EXC',type(e).__name__,'%s:%d'%(tb.filename.split('/')[-1],tb.lineno)); fails[k]+=1; ex.setdefault(k,(text,langs,str(e)[:80])); continue
            if r is None: continue
            hits+=1
            if not isinstance(r,list) or not r: k=('shape',); fails[k]+=1; ex.setdefault(k,(text,langs,r)); continue
            pos=0; tn=norm_ws(text)
            for item in r:
                if len(item)!=(3 if adl else 2) or not isinstance(item[0],str) or not isinstance(item[1],dt.datetime):
                    k=('tuple',); fails[k]+=1; ex.setdefault(k,(text,langs,r)); break
                sub=norm_ws(item[0])
                if not sub: k=('blank',); fails[k]+=1; ex.setdefault(k,(text,langs,r)); break
                i=tn.find(sub,pos)
                if i<0:
                    k=('not in text' if tn.find(sub)<0 else 'out of order',); fails[k]+=1; ex.setdefault(k,(text,langs,r)); break
                pos=i+len(sub)
                if adl and langs and item[2] not in langs: k=('lang',); fails[k]+=1; ex.setdefault(k,(text,langs,r)); break
print('N',N,'hits',hits,'fails',sum(fails.values()),time.time()-t0)
for k,v in sorted(fails.items(),key=lambda x:-x[1])[:40]: print(k,v,ex[k])
