import random, datetime as dt, collections, pytz, os
import dateparser
rnd=random.Random(3)
fails=[]
zones=['UTC','America/New_York','Asia/Kolkata','Australia/Lord_Howe','Europe/London','Pacific/Kiritimati','EST','+0530','UTC+3']
for i in range(3000):
    n=rnd.choice([10**9,10**10-1,rnd.randrange(10**9,10**10),rnd.randrange(10**9,2*10**9)])
    suf=rnd.choice(['', '%03d'%rnd.randrange(1000), '%06d'%rnd.randrange(10**6)])
    neg=rnd.random()<0.3
    tz=rnd.choice(zones)
    s=('-' if neg else '')+str(n)+suf
    st={'TIMEZONE':tz}
    if neg: st['PARSERS']=['negative-timestamp','timestamp','relative-time','custom-formats','absolute-time']
    to=rnd.choice([None,None,'UTC','Asia/Tokyo'])
    if to: st['TO_TIMEZONE']=to
    try: r=dateparser.parse(s,settings=st)
    except Exception as e: r='EXC %r'%e
    # oracle
    us=int(suf) * (1000 if len(suf)==3 else 1) if suf else 0
    secs=-n if neg else n
    try:
        inst=dt.datetime(1970,1,1,tzinfo=dt.timezone.utc)+dt.timedelta(seconds=secs)
        # microseconds: code does fromtimestamp(seconds).replace(microsecond=...) i.e. adds forward even when negative
        inst=inst+dt.timedelta(microseconds=us)
        from dateparser.utils import get_timezone_from_tz_string
        z=get_timezone_from_tz_string(to or tz)
        exp=inst.astimezone(z).replace(tzinfo=None)
    except OverflowError as e:
        exp='OVF'
    if r!=exp: fails.append((s,st,str(r),str(exp)))
print(len(fails))
for f in fails[:20]: print(f)
