import datetime as dt, collections, time, pickle, copy, re as _re
import dateparser
from dateparser.timezones import timezone_info_list
fails=collections.Counter(); ex={}; N=0
t0=time.time()
# abbreviations: first occurrence wins? build expected from the table: name->list of offsets
abbr=collections.OrderedDict(); 
for info in timezone_info_list[1:]:
    for name,off in info['timezones']:
        abbr.setdefault(name,[]).append(off)
print('tables',len(timezone_info_list),[ (i['regex_patterns'], len(i['timezones'])) for i in timezone_info_list])
print('abbr',len(abbr),'dups with conflicting offsets',[(k,v) for k,v in abbr.items() if len(set(v))>1])
bodies=['2015-05-12 10:30','12 May 2015 10:30:45','May 12, 2015 10:30 PM']
exp_b=[dt.datetime(2015,5,12,10,30),dt.datetime(2015,5,12,10,30,45),dt.datetime(2015,5,12,22,30)]
def chk(s,exp,off,key):
    global N
    N+=1
    for mode in ('en','auto'):
        try: r=dateparser.parse(s,languages=['en']) if mode=='en' else dateparser.parse(s)
        except Exception as e: r='EXC %r'%e
        ok=isinstance(r,dt.datetime) and r.tzinfo is not None and r.utcoffset()==dt.timedelta(seconds=off) and r.replace(tzinfo=None)==exp
        if ok:
            r2=pickle.loads(pickle.dumps(r)); r3=copy.deepcopy(r)
            ok = r2==r and r2.utcoffset()==r.utcoffset() and r3.utcoffset()==r.utcoffset() and r2.replace(tzinfo=None)==exp
        if not ok:
            k=(key,mode); fails[k]+=1; ex.setdefault(k,[]).append((s,str(r)))
for name,offs in abbr.items():
    for bi,b in enumerate(bodies):
        for nm in (name,name.lower()):
            chk(b+' '+nm, exp_b[bi], offs[0], 'abbr')
# offsets
offs0=timezone_info_list[0]['timezones']
print('offsets',len(offs0))
for pat,off in offs0:
    m=_re.match(r'UTC\\([+-])(\d\d):(\d\d)',pat); sg,hh,mm=m.groups()
    sp=[sg+hh+mm, sg+hh+':'+mm, 'UTC'+sg+hh+':'+mm, 'GMT'+sg+hh+':'+mm, 'UTC'+sg+str(int(hh))+(':'+mm if mm!='00' else ''), 'GMT'+sg+str(int(hh))+(':'+mm if mm!='00' else ''), 'UTC'+sg+hh+mm, 'UTC'+sg+hh if mm=='00' else 'UTC'+sg+hh+':'+mm]
    for spx in sp:
        for bi,b in enumerate(bodies):
            chk(b+' '+spx, exp_b[bi], off, 'offset:'+str(sp.index(spx)))
print('N',N,'fails',sum(fails.values()),time.time()-t0)
for k,v in sorted(fails.items(),key=lambda x:-x[1])[:40]: print(k,v,len(ex[k]),ex[k][:12])
