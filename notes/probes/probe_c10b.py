import collections, datetime as dt, time, itertools, json
from dateparser.date import DateDataParser
from dateparser.data.languages_info import language_order
from dateparser.languages.loader import LocaleDataLoader
from dateparser.utils import normalize_unicode
MONTHS=["january","february","march","april","may","june","july","august","september","october","november","december"]
WD=["monday","tuesday","wednesday","thursday","friday","saturday","sunday"]
loader=LocaleDataLoader()
b1=dt.datetime(1987,3,14,5,6,7); b2=dt.datetime(2031,11,29,18,45,1)
ABS=['timestamp','custom-formats','absolute-time']
fails=collections.Counter(); ex={}; N=0
t0=time.time()
def single(info):
    m=collections.defaultdict(set)
    for k,v in info.items():
        if isinstance(v,list) and k!='simplifications':
            for w in v:
                if isinstance(w,str): m[normalize_unicode(w.lower())].add(k)
    for k,v in info.get('relative-type',{}).items():
        for w in v: m[normalize_unicode(w.lower())].add('rel:'+k)
    return m
for lang in language_order:
    loc=loader.get_locale(lang); info=loc.info; m=single(info)
    probe=DateDataParser(languages=[lang],settings={'RELATIVE_BASE':b1})
    def ok_month(w,mi): 
        r=probe.get_date_data('13 %s 2015'%w).date_obj; return r==dt.datetime(2015,mi+1,13)
    mons=[(w,mi) for mi,k in enumerate(MONTHS) for w in info.get(k,[])[:2] if len(m[normalize_unicode(w.lower())])==1 and ok_month(w,mi)][:3]
    wds=[w for k in WD for w in info.get(k,[])[:1] if len(m[normalize_unicode(w.lower())])==1][:1]
    if not mons: continue
    order=info.get('date_order','MDY')
    for (mw,mi) in mons:
      for parts in itertools.chain.from_iterable(itertools.combinations(['D','M','Y','W','T'],r) for r in range(1,6)):
        f={'D':'17','M':mw,'Y':'2013'}
        toks=[f[c] for c in order if c in parts]
        if 'W' in parts and wds: toks.insert(0,wds[0])
        if 'T' in parts: toks.append('10:45')
        if not toks: continue
        s=' '.join(toks)
        res={}
        for bi,b in enumerate((b1,b2)):
            def P(**st):
                try: return DateDataParser(languages=[lang],settings=dict(RELATIVE_BASE=b,PARSERS=ABS,**st)).get_date_data(s).date_obj
                except Exception as e: return 'EXC %s'%type(e).__name__
            loose=P(); strict=P(STRICT_PARSING=True); res[bi]=(loose,strict)
            N+=1
            if strict is not None and strict!=loose: k=('strict changes',); fails[k]+=1; ex.setdefault(k,(lang,s,str(loose),str(strict)))
            if strict is not None and not {'D','M','Y'}<=set(parts): k=('strict but part missing',tuple(parts)); fails[k]+=1; ex.setdefault(k,(lang,s,str(strict)))
            for rp in (['day'],['month'],['year'],['day','month','year']):
                r=P(REQUIRE_PARTS=rp)
                need={'day':'D','month':'M','year':'Y'}
                if r is not None and r!=loose: k=('require changes',); fails[k]+=1; ex.setdefault(k,(lang,s,rp,str(loose),str(r)))
                if r is not None and any(need[x] not in parts for x in rp): k=('required part missing but result',tuple(rp),tuple(parts)); fails[k]+=1; ex.setdefault(k,(lang,s,str(r)))
        if res[0][1]!=res[1][1]: k=('strict depends on clock',); fails[k]+=1; ex.setdefault(k,(lang,s,str(res[0][1]),str(res[1][1])))
print('N',N,'fails',sum(fails.values()),time.time()-t0)
for k,v in sorted(fails.items(),key=lambda x:-x[1])[:40]: print(k,v,ex[k])
