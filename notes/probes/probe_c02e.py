import random, datetime as dt, collections, traceback, sys, pytz
import dateparser
from dateparser.conf import SettingValidationError
rnd=random.Random(5)
tzs=['UTC','Pacific/Kiritimati','Pacific/Pago_Pago','Asia/Kolkata','America/New_York','EST','+0530','-1200','UTC+14','local']
offs=['',' +0000',' -0500',' +1400',' -1200',' EST',' UTC',' Z',' +05:30',' GMT+2']
edge=['0001-01-01 00:00','0001-01-01 00:00:00.000001','0001-01-01 13:00','0001-12-31','0001-01-02 01:00','9999-12-31 23:59','9999-12-31 23:59:59.999999','9999-12-31 10:00','9999-12-30 23:00','9999-01-01','1 January 0001','31 December 9999 11:59 PM','January 1','Dec 31','December','Monday','23:59','00:00','31 12 99','01/01/01','9999','0001','1','12 9999','9999-12','0001-01']
rel=['in 1 day','1 day ago','in 1 month','1 year ago','in 1 decade','tomorrow','yesterday','now','in 24 hours','1 second ago','in 5000 years','9999 years ago','in 1 week','next year','last month','2 hours ago EST','in 1 hour +1400']
ts=['9999999999','1000000000','9999999999999','-9999999999','-1000000000123','0000000000','253402300799','99999999999','-99999999999']
bases=[dt.datetime.min,dt.datetime.max,dt.datetime(1,1,1,12),dt.datetime(9999,12,31),dt.datetime(1,1,2),dt.datetime(9999,12,30,23),dt.datetime(1,12,31,23,59),dt.datetime(9999,1,1),
       dt.datetime.min.replace(tzinfo=dt.timezone.utc),dt.datetime.max.replace(tzinfo=dt.timezone.utc),dt.datetime(1,1,1,5,tzinfo=dt.timezone(dt.timedelta(hours=14))),dt.datetime(9999,12,31,20,tzinfo=dt.timezone(dt.timedelta(hours=-12)))]
fails=collections.Counter(); ex={}; N=0; out=collections.Counter()
for i in range(int(sys.argv[1]) if len(sys.argv)>1 else 6000):
    k=rnd.random()
    if k<0.5: s=rnd.choice(edge)+rnd.choice(offs)
    elif k<0.8: s=rnd.choice(rel)
    else: s=rnd.choice(ts)
    st={}
    if rnd.random()<0.7: st['TIMEZONE']=rnd.choice(tzs)
    if rnd.random()<0.5: st['TO_TIMEZONE']=rnd.choice(tzs[:-1])
    if rnd.random()<0.4: st['RETURN_AS_TIMEZONE_AWARE']=rnd.random()<0.5
    if rnd.random()<0.7: st['RELATIVE_BASE']=rnd.choice(bases)
    if rnd.random()<0.5: st['PREFER_DATES_FROM']=rnd.choice(['past','future','current_period'])
    if rnd.random()<0.3: st['PREFER_DAY_OF_MONTH']=rnd.choice(['first','last','current'])
    if rnd.random()<0.3: st['PREFER_MONTH_OF_YEAR']=rnd.choice(['first','last','current'])
    if rnd.random()<0.2: st['PARSERS']=['negative-timestamp','timestamp','relative-time','absolute-time','no-spaces-time']
    if rnd.random()<0.2: st['DATE_ORDER']=rnd.choice(['DMY','YMD','MDY'])
    kw={}
    if rnd.random()<0.3: kw['date_formats']=[rnd.choice(['%Y-%m-%d %H:%M','%d %B','%H:%M','%Y','%m/%d/%y'])]
    N+=1
    try:
        r=dateparser.parse(s,languages=['en'],settings=st,**kw); out['none' if r is None else 'dt']+=1
    except Exception as e:
        tb=traceback.extract_tb(e.__traceback__)
        lib=[f for f in tb if '/dateparser/' in f.filename][-1]
        kk=(type(e).__name__,'%s:%s'%(lib.filename.split('/')[-1],lib.name)); fails[kk]+=1; ex.setdefault(kk,(s,st,kw,str(e)[:80]))
print(dateparser.__file__,'N',N,dict(out),'fails',sum(fails.values()))
for k,v in sorted(fails.items(),key=lambda x:-x[1]): print(k,v,ex[k])
