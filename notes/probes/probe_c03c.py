import random, datetime as dt, collections, time, json, sys, subprocess, os, copy
import dateparser
from dateparser.date import DateDataParser
from dateparser.search import search_dates
B=dt.datetime(2012,11,13,14,15,16)
LANGS=['en','fr','de','ru']
SETS=[{},{'DATE_ORDER':'DMY'},{'NORMALIZE':False},{'SKIP_TOKENS':['xyz']},{'PREFER_DATES_FROM':'past'},{'PREFER_DATES_FROM':'future','RELATIVE_BASE':B},{'RELATIVE_BASE':B},{'CACHE_SIZE_LIMIT':1},{'PARSERS':['absolute-time']},{'TIMEZONE':'UTC','TO_TIMEZONE':'Asia/Tokyo','RELATIVE_BASE':B},{'STRICT_PARSING':True},{'DEFAULT_LANGUAGES':['en'],'RELATIVE_BASE':B}]
STR={'en':['02/03/2015','12 May 2015','yesterday','xyz 3 June 2011','10:45','May 2015','2 days ago'],'fr':['02/03/2015','12 février 2015','12 fevrier 2015','hier','il y a 2 jours','le 3 mars'],'de':['02.03.2015','3. Januar 2011','gestern','vor 2 Tagen'],'ru':['02.03.2015','12 мая 2015 г.','вчера','2 дня назад']}
TXT={'en':['It was on 12 May 2015 and then yesterday again','Monday, then 2015-01-01. two days ago'],'fr':['Nous sommes le 3 mars 2011. Hier il a plu.','le 12 févr. 2015 puis hier'],'de':['Am 3. Januar 2011 und gestern.'],'ru':['Это было 12 мая 2015 г. и вчера']}
def norm(r, t0):
    # make "now"-relative results comparable: bucket difference to call time in minutes
    if isinstance(r,dt.datetime):
        if abs((r.replace(tzinfo=None)-t0).total_seconds())<400*86400 and r.year>=2025: return 'NOW%+d'%round((r.replace(tzinfo=None)-t0).total_seconds()/60)
        return repr(r)
    return repr(r)
def do(kind,lang,si,ti,s,insts):
    st=copy.deepcopy(SETS[si]); t0=dt.datetime.utcnow()
    try:
        if kind=='parse': r=dateparser.parse(s,languages=[lang],settings=st); out=norm(r,t0)
        elif kind=='inst':
            key=(lang,si)
            if key not in insts: insts[key]=DateDataParser(languages=[lang],settings=st)
            d=insts[key].get_date_data(s); out=norm(d.date_obj,t0)+'|'+str(d.period)+'|'+str(d.locale)
        else:
            r=search_dates(s,languages=[lang],settings=st); out=repr([(a,norm(b,t0)) for a,b in r]) if r else 'None'
    except Exception as e: out='EXC '+type(e).__name__
    return out
def allcalls():
    C=[]
    for lang in LANGS:
        for si in range(len(SETS)):
            for s in STR[lang]: C.append(('parse',lang,si,None,s)); C.append(('inst',lang,si,None,s))
            for s in TXT[lang]: C.append(('search',lang,si,None,s))
    return C
if __name__=='__main__':
    C=allcalls()
    if sys.argv[1]=='fresh':
        lo,hi=int(sys.argv[2]),int(sys.argv[3])
        # each call in its own fresh process is expensive; emulate: one process per call
        print(json.dumps(do(*C[lo],{}))); sys.exit()
    if sys.argv[1]=='ref':
        from concurrent.futures import ThreadPoolExecutor
        env=dict(os.environ)
        def f(i): return json.loads(subprocess.run([sys.executable,__file__,'fresh',str(i),str(i+1)],capture_output=True,text=True,timeout=120,env=env).stdout)
        with ThreadPoolExecutor(16) as ex: ref=list(ex.map(f,range(len(C))))
        json.dump(ref,open(sys.argv[2],'w')); print(len(ref)); sys.exit()
    ref=json.load(open(sys.argv[2])); rnd=random.Random(int(sys.argv[3])); n=int(sys.argv[4])
    fails=collections.Counter(); ex={}; insts={}; hist=[]
    for step in range(n):
        if step%400==0: insts={}
        i=rnd.randrange(len(C)); hist.append(i)
        out=do(*C[i],insts)
        if out!=ref[i]:
            k=(C[i][0],C[i][1],json.dumps(SETS[C[i][2]],default=str),C[i][4]); fails[k]+=1; ex.setdefault(k,(step,out,ref[i],[C[j][:3]+(C[j][4],) for j in hist[-4:-1]]))
    print(dateparser.__file__,'steps',n,'fails',sum(fails.values()),'distinct',len(fails))
    for k,v in sorted(fails.items(),key=lambda x:-x[1])[:25]: print(k,v,ex[k])
