import sys, time, collections, datetime as dt, json
import regex as re
from dateparser.date import DateDataParser
from dateparser.data.languages_info import language_order, language_locale_dict
from dateparser.languages.loader import LocaleDataLoader
loader=LocaleDataLoader()
base=dt.datetime(2021,3,31,10,30,15)
S={'RELATIVE_BASE':base}
enp=DateDataParser(languages=['en'],settings=S)
def listed(info):
    meaning=collections.defaultdict(set)
    for k,v in info.items():
        if isinstance(v,list) and k not in ('simplifications',):
            for w in v:
                if isinstance(w,str): meaning[w.lower()].add(k)
    for k,v in info.get('relative-type',{}).items():
        for w in v: meaning[w.lower()].add('rel:'+k)
    return meaning
GROUP=r"(\d+[.,]?\d*)"
meta=re.compile(r"[\\^$.|?*+()\[\]{}]")
fails=[]; tot=0; skipped=0; amb=0; nonlit=collections.Counter()
t0=time.time()
for lang in language_order:
    loc=loader.get_locale(lang); info=loc.info
    meaning=listed(info)
    p=DateDataParser(languages=[lang],settings=S)
    for canon,words in info.get('relative-type',{}).items():
        exp=enp.get_date_data(canon)
        for w in words:
            if len(meaning[w.lower()])!=1: amb+=1; continue
            tot+=1
            try: r=p.get_date_data(w)
            except Exception as e: fails.append((lang,canon,w,'EXC %r'%e)); continue
            if r.date_obj!=exp.date_obj: fails.append((lang,canon,w,str(r.date_obj),str(exp.date_obj)))
    pats=collections.defaultdict(set)
    for canon,words in info.get('relative-type-regex',{}).items():
        for w in words: pats[w].add(canon)
    for canon,words in info.get('relative-type-regex',{}).items():
        for w in words:
            if len(pats[w])!=1: amb+=1; continue
            if GROUP not in w: nonlit['nogroup']+=1; continue
            rest=w.replace(GROUP,'')
            if meta.search(rest): nonlit[lang]+=1; skipped+=1; continue
            for n in ('2','11','45'):
                phrase=w.replace(GROUP,n); c=canon.replace('\\1',n)
                tot+=1
                exp=enp.get_date_data(c)
                try: r=p.get_date_data(phrase)
                except Exception as e: fails.append((lang,c,phrase,'EXC %r'%e)); continue
                if r.date_obj!=exp.date_obj: fails.append((lang,c,phrase,str(r.date_obj),str(exp.date_obj)))
print('tot',tot,'amb',amb,'skipped nonliteral',skipped,'fails',len(fails),'time',time.time()-t0)
print(nonlit.most_common(20))
json.dump(fails,open('/tmp/c06_fails.json','w'),ensure_ascii=False,indent=0)
c=collections.Counter(f[0] for f in fails); print(len(c), c.most_common(40))
for f in fails[:60]: print(f)
