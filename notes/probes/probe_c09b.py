import random, datetime as dt, collections, calendar, pytz
from dateparser.date import DateDataParser
rnd=random.Random(99)
MN=['January','February','March','April','May','June','July','August','September','October','November','December']
fails=collections.Counter(); ex={}
N=0
for i in range(3000):
    by=rnd.randrange(1971,2067); bm=rnd.randrange(1,13); bd=rnd.randrange(1,calendar.monthrange(by,bm)[1]+1)
    b=dt.datetime(by,bm,bd,rnd.randrange(24),rnd.randrange(60))
    pref=rnd.choice(['past','future','current_period'])
    kind=rnd.choice(['feb29','time_tz','dm_time'])
    if kind=='feb29':
        p=DateDataParser(languages=['en'],settings={'RELATIVE_BASE':b,'PREFER_DATES_FROM':pref})
        s=rnd.choice(['29 February','Feb 29','February 29 10:30'])
        r=p.get_date_data(s).date_obj
        ok=r is not None and (r.month,r.day)==(2,29)
        if ok and pref=='past': ok=r<=b or (r.date()==b.date())
        if ok and pref=='future': ok=r>=b or (r.date()==b.date())
        if ok and pref=='current_period' and calendar.isleap(by): ok=r.year==by
        N+=1
        if not ok: k=(kind,pref); fails[k]+=1; ex.setdefault(k,(s,str(b),str(r)))
    elif kind=='time_tz':
        tzn=rnd.choice(['UTC','America/New_York','Asia/Kolkata','Asia/Tokyo','+0530','EST','Australia/Lord_Howe','Pacific/Kiritimati','Pacific/Pago_Pago'])
        p=DateDataParser(languages=['en'],settings={'RELATIVE_BASE':b,'PREFER_DATES_FROM':pref,'TIMEZONE':tzn})
        h=rnd.randrange(24); mi=rnd.randrange(60); s='%02d:%02d'%(h,mi)
        r=p.get_date_data(s).date_obj
        from dateparser.utils import get_timezone_from_tz_string
        tz=get_timezone_from_tz_string(tzn)
        ok=r is not None and (r.hour,r.minute)==(h,mi)
        if ok:
            try:
                ru=(tz.localize(r,is_dst=None) if hasattr(tz,'localize') and tzn not in('+0530','EST') else r.replace(tzinfo=tz)).astimezone(dt.timezone.utc).replace(tzinfo=None)
            except Exception: continue
            if pref=='past': ok= ru<=b and b-ru<dt.timedelta(days=1)
            elif pref=='future': ok= ru>=b and ru-b<dt.timedelta(days=1)
            else: ok = r.date()==b.date()
        N+=1
        if not ok: k=(kind,pref,tzn); fails[k]+=1; ex.setdefault(k,(s,str(b),str(r)))
    else:
        p=DateDataParser(languages=['en'],settings={'RELATIVE_BASE':b,'PREFER_DATES_FROM':pref})
        m=rnd.randrange(1,13); d=rnd.randrange(1,29); h=rnd.randrange(24)
        if rnd.random()<0.3: m,d=b.month,b.day
        s='%d %s %02d:15'%(d,MN[m-1],h)
        r=p.get_date_data(s).date_obj
        ok=r is not None and (r.month,r.day,r.hour,r.minute)==(m,d,h,15)
        if ok and pref=='past': ok=r<=b
        if ok and pref=='future': ok=r>=b
        if ok and pref=='current_period': ok=r.year==by
        N+=1
        if not ok: k=(kind,pref,'sameday' if (m,d)==(b.month,b.day) else ''); fails[k]+=1; ex.setdefault(k,(s,str(b),str(r)))
print(N,sum(fails.values()))
for k,v in sorted(fails.items(),key=lambda x:-x[1])[:30]: print(k,v,ex[k])
