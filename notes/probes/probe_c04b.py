import datetime as dt
from dateparser.date import DateDataParser
b=dt.datetime(2020,3,31,22,15,7,123)
for st in ({}, {'RETURN_TIME_AS_PERIOD':True}, {'PREFER_DATES_FROM':'future'}):
    p=DateDataParser(languages=['en'],settings=dict(RELATIVE_BASE=b,**st))
    print(st)
    for s in ['now','today','yesterday','tomorrow','last week','next week','last month','next month','last year','next year','this month',
              '1.5 hours ago','in 2.5 minutes','0.5 second ago','2,5 hours ago','1.5 days ago','1.5 weeks ago','1.5 months ago',
              'yesterday at 3 pm','yesterday 15:30','2 days ago at 10:05:33','in 3 weeks 9am','tomorrow 12 am','1 month ago 23:59','2 weeks','3 days','1 hour',
              'an hour ago','a week ago','one month ago','in a year', '1 year 2 months 3 days ago', '1 decade ago','in 2 decades','1 decade 2 years ago',
              '1 day ago 2 hours ago','5000 years ago','in 9000 years','1 hour ago EST', 'in 1 day +0530']:
        r=p.get_date_data(s); print('  %-28s'%s, r.date_obj, r.period)
