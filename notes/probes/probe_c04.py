import random, datetime as dt, collections, calendar, sys, time
from dateparser.date import DateDataParser
def add_months(d, k):
    idx=d.year*12+(d.month-1)+k
    y,m=divmod(idx,12); m+=1
    if not (1<=y<=9999): raise OverflowError
    return d.replace(year=y,month=m,day=min(d.day,calendar.monthrange(y,m)[1]))
UN={'second':1,'minute':60,'hour':3600,'day':86400,'week':7*86400}
def model(b, parts, sign):
    months=0; secs=0.0
    for n,u in parts:
        if u=='month': months+=n
        elif u=='year': months+=12*n
        elif u=='decade': months+=120*n
        else: secs+=n*UN[u]
    try:
        d=add_months(b, sign*int(months))
        return d+dt.timedelta(seconds=sign*secs)
    except OverflowError:
        return None
def period(parts):
    us=[u for n,u in parts]
    if 'day' in us: return 'day'
    for k in ('week','month','year'):
        if k in us or (k=='year' and 'decade' in us): return k
    return 'day'
rnd=random.Random(int(sys.argv[1]) if len(sys.argv)>1 else 1)
units=['second','minute','hour','day','week','month','year','decade']
fails=collections.Counter(); ex={}
N=int(sys.argv[2]) if len(sys.argv)>2 else 4000
t0=time.time()
for i in range(N):
    k=rnd.random()
    y=rnd.randrange(1800,2201)
    if k<0.4:
        m=rnd.randrange(1,13); b=dt.datetime(y,m,calendar.monthrange(y,m)[1],rnd.randrange(24),rnd.randrange(60),rnd.randrange(60))
    elif k<0.5:
        y=rnd.choice([1804,1896,1904,2000,2096,2104,2196,2024]); b=dt.datetime(y,2,29,rnd.randrange(24),rnd.randrange(60))
    elif k<0.6: b=dt.datetime(y,rnd.randrange(1,13),rnd.randrange(1,29))
    else: b=dt.datetime(y,rnd.randrange(1,13),rnd.randrange(1,29),rnd.randrange(24),rnd.randrange(60),rnd.randrange(60),rnd.randrange(10**6))
    nu=rnd.choice([1,1,1,2,3])
    us=rnd.sample(units,nu)
    if 'decade' in us and 'year' in us: us.remove('year')
    parts=[]
    for u in us:
        n=rnd.choice([0,1,2,3,11,12,13,28,29,30,31,59,60,61,99,100,365,366,1000,4999,5000,rnd.randrange(5001)])
        parts.append((n,u))
    sign=rnd.choice([-1,1])
    plural=lambda n,u: u+('s' if n!=1 else '')
    body=rnd.choice([', ',' ',' and ']).join('%d %s'%(n,plural(n,u)) for n,u in parts)
    s=('in '+body) if sign>0 else (body+' ago')
    p=DateDataParser(languages=['en'],settings={'RELATIVE_BASE':b, 'PREFER_DATES_FROM':rnd.choice(['past','future','current_period'])})
    try:
        r=p.get_date_data(s); got=(r.date_obj,r.period if r.date_obj else None)
    except Exception as e: got=('EXC %r'%e,None)
    e=model(b,parts,sign); exp=(e, period(parts) if e else None)
    if got!=exp:
        key=(tuple(sorted(us)),)
        fails[key]+=1; ex.setdefault(key,(s,str(b),str(got),str(exp)))
print('N',N,'fails',sum(fails.values()),time.time()-t0)
for k,v in sorted(fails.items(),key=lambda x:-x[1])[:40]: print(k,v,ex[k])
