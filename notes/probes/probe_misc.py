import json, collections, datetime as dt, time, re as _re
import regex as re
import dateparser
from dateparser.date import DateDataParser
from dateparser.data.languages_info import language_order, language_locale_dict
from dateparser.languages.loader import LocaleDataLoader
from dateparser.timezone_parser import pop_tz_offset_from_string
loader=LocaleDataLoader()
corpus=[(a,b,(c if c in language_order else None)) for a,b,c in json.load(open('/tmp/corpus_raw.json'))]
print('bad lang tags',sum(1 for a,b,c in json.load(open('/tmp/corpus_raw.json')) if c and c not in language_order))
# E: naive-by-default
B=dt.datetime(2012,11,13,14,15,16)
aw=[]; n=0
for s,fn,lang in corpus:
    stripped,tz=pop_tz_offset_from_string(s,as_offset=False)
    if tz is not None: continue
    n+=1
    r=dateparser.parse(s,languages=[lang] if lang else None,settings={'RELATIVE_BASE':B})
    if r is not None and r.tzinfo is not None: aw.append((s,lang,str(r)))
print('E naive: strings without tz',n,'aware results',len(aw),aw[:10])
# C: regions
bad=[]; n=0
for lang in language_order:
    for loc in language_locale_dict[lang]:
        region=loc[len(lang)+1:]
        for s in ('02/03/2015','12 2015'):
            n+=1
            a=DateDataParser(languages=[lang],region=region,settings={'RELATIVE_BASE':B}).get_date_data(s)
            b=DateDataParser(locales=[loc],settings={'RELATIVE_BASE':B}).get_date_data(s)
            if (a.date_obj,a.period,a.locale)!=(b.date_obj,b.period,b.locale) or (a.date_obj is not None and a.locale!=loc): bad.append((loc,s,str(a),str(b)))
print('C region==locale: cases',n,'bad',len(bad),bad[:5])
# D: C06 n in 0,1 and decimals
GROUP=r"(\d+[.,]?\d*)"; meta=re.compile(r"[\\^$.|?*+()\[\]{}]")
enp=DateDataParser(languages=['en'],settings={'RELATIVE_BASE':B})
fails=collections.Counter(); ex={}; tot=0
known=set((f[0],f[2].split(' ')[0]) for f in json.load(open('/tmp/c06_fails.json')))
for lang in language_order:
    info=loader.get_locale(lang).info
    p=DateDataParser(languages=[lang],settings={'RELATIVE_BASE':B})
    pats=collections.defaultdict(set)
    for canon,words in info.get('relative-type-regex',{}).items():
        for w in words: pats[w].add(canon)
    for canon,words in info.get('relative-type-regex',{}).items():
        for w in words:
            if len(pats[w])!=1 or GROUP not in w or meta.search(w.replace(GROUP,'')): continue
            for nval in ('0','1','120','1.5','2,5'):
                if nval in('1.5','2,5') and not _re.search('hour|minute|second|day|week',canon): continue
                phrase=w.replace(GROUP,nval); c=canon.replace('\\1',nval); tot+=1
                e=enp.get_date_data(c).date_obj
                try: r=p.get_date_data(phrase).date_obj
                except Exception as x: r='EXC'
                if r!=e: k=(lang,w); fails[k]+=1; ex.setdefault(k,(nval,phrase,str(r),str(e)))
print('D C06 extra counts: tot',tot,'failing (lang,pattern)',len(fails))
prev=json.load(open('/tmp/c06_fails.json')); prevk=set()
for f in prev: prevk.add(f[0])
new=[(k,ex[k]) for k in fails if k[0] not in prevk]
print(' languages not failing before:',len(new)); 
for x in new[:25]: print('  ',x)
