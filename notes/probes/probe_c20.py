import sys, threading, time, collections, datetime as dt
import dateparser
from dateparser.date import DateDataParser
mon=sys.monitoring
TOOL=mon.DEBUGGER_ID
B=dt.datetime(2012,11,13,14,15,16)
def callA(): return dateparser.parse('02/03/2015',languages=['fr'],settings={'RELATIVE_BASE':B})
def callB(): return dateparser.parse('02/03/2015',languages=['en'],settings={'RELATIVE_BASE':B})
# warm
seqA=callA(); seqB=callB(); print('seq',seqA,seqB)
class Sched:
    def __init__(self): self.target=None; self.k=None; self.count=0; self.fired=False; self.bthread=None; self.loc=None
S=Sched()
LIBPFX='/repo/dateparser/'
def on_line(code,line):
    if not code.co_filename.startswith(LIBPFX): return mon.DISABLE
    if threading.get_ident()!=S.target: return
    S.count+=1
    if S.k is not None and S.count==S.k and not S.fired:
        S.fired=True; S.loc=(code.co_filename[len(LIBPFX):],line)
        t=threading.Thread(target=S.runB); t.start(); t.join(5)   # run B to completion while A is suspended here
def count_lines(fn):
    S.target=threading.get_ident(); S.k=None; S.count=0
    fn(); return S.count
mon.use_tool_id(TOOL,'sched'); mon.register_callback(TOOL,mon.events.LINE,on_line); mon.set_events(TOOL,mon.events.LINE)
nA=count_lines(callA); nB=count_lines(callB); print('lines A',nA,'B',nB)
def explore(fa,fb,ea,eb,n,step=1):
    bad=collections.Counter(); locs={}
    t0=time.time()
    for k in range(1,n+1,step):
        res={}
        def runB():
            try: res['B']=fb()
            except Exception as e: res['B']='EXC %r'%e
        S.runB=runB; S.k=k; S.count=0; S.fired=False
        def runA():
            S.target=threading.get_ident()
            try: res['A']=fa()
            except Exception as e: res['A']='EXC %r'%e
        ta=threading.Thread(target=runA); ta.start(); ta.join(10)
        if res.get('A')!=ea or res.get('B')!=eb:
            bad[S.loc]+=1; locs.setdefault(S.loc,(k,str(res.get('A')),str(res.get('B'))))
    return bad,locs,time.time()-t0
bad,locs,t=explore(callA,callB,seqA,seqB,nA)
print('A preempted by B: schedules',nA,'violations',sum(bad.values()),'distinct locs',len(bad),'time',t)
for l,c in list(bad.items())[:10]: print(l,c,locs[l])
bad,locs,t=explore(callB,callA,seqB,seqA,nB)
print('B preempted by A: schedules',nB,'violations',sum(bad.values()),'distinct locs',len(bad),'time',t)
for l,c in list(bad.items())[:10]: print(l,c,locs[l])
