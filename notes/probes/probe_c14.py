import random, datetime as dt, collections, time, calendar
import dateparser
rnd=random.Random(14)
MN=['January','February','March','April','May','June','July','August','September','October','November','December']
WN=['Monday','Tuesday','Wednesday','Thursday','Friday','Saturday','Sunday']
def render(d,f):
    out=''; i=0
    while i<len(f):
        if f[i]=='%':
            c=f[i+1]; i+=2
            out+={'Y':'%04d'%d.year,'y':'%02d'%(d.year%100),'m':'%02d'%d.month,'d':'%02d'%d.day,'H':'%02d'%d.hour,'M':'%02d'%d.minute,'S':'%02d'%d.second,
                  'f':'%06d'%d.microsecond,'I':'%02d'%((d.hour%12) or 12),'p':'AM' if d.hour<12 else 'PM','B':MN[d.month-1],'b':MN[d.month-1][:3],'A':WN[d.weekday()],'a':WN[d.weekday()][:3],'j':'%03d'%d.timetuple().tm_yday}[c]
        else: out+=f[i]; i+=1
    return out
FORMATS=['%Y-%m-%d','%d/%m/%Y','%m.%d.%Y %H:%M','%Y%m%d%H%M%S','%d %B %Y','%B %d, %Y','%b %d %Y %I:%M %p','%A, %d %B %Y','%a %d %b %Y %H:%M:%S','%Y-%m-%dT%H:%M:%S.%f',
 '%d-%m-%y','%y/%m/%d %H:%M','%I:%M:%S %p %d.%m.%Y','%H:%M %d %b %Y','%B %Y','%m/%Y','%Y','%b %y','%d %B','%d/%m','%m-%d %H:%M','%H:%M:%S','%Y %j','%d|%m|%Y','[%Y] %B (%d)','%Yx%mx%d','%S:%M:%H %d %m %Y','%f %Y-%m-%d']
fails=collections.Counter(); ex={}; N=0
today=dt.datetime.today()
t0=time.time()
for i in range(4000):
    d=dt.datetime(rnd.randrange(1900,2101),rnd.randrange(1,13),rnd.randrange(1,29),rnd.randrange(24),rnd.randrange(60),rnd.randrange(60),rnd.randrange(10**6))
    if rnd.random()<0.2:
        y=rnd.randrange(1900,2101); m=rnd.randrange(1,13); d=d.replace(year=y,month=m,day=calendar.monthrange(y,m)[1])
    f=rnd.choice(FORMATS)
    if '%Y' not in f and '%y' not in f and (d.month,d.day)==(2,29): continue
    pd=rnd.choice(['first','last']); pm=rnd.choice(['first','last'])
    s=render(d,f)
    kw={}
    y=d.year
    if '%y' in f: y=(2000 if d.year%100<69 else 1900)+d.year%100
    elif '%Y' not in f: y=today.year
    hasm=any(x in f for x in ('%m','%b','%B')); hasd='%d' in f
    if '%j' in f: continue
    mth=d.month if hasm else {'first':1,'last':12}[pm]
    dd=d.day if hasd else {'first':1,'last':calendar.monthrange(y,mth)[1]}[pd]
    exp=dt.datetime(y,mth,dd,d.hour if ('%H' in f or '%I' in f) else 0, d.minute if '%M' in f else 0, d.second if '%S' in f else 0, d.microsecond if '%f' in f else 0)
    if '%I' in f and '%p' not in f: continue
    try: r=dateparser.parse(s,date_formats=[f],languages=['en'],settings={'PREFER_DAY_OF_MONTH':pd,'PREFER_MONTH_OF_YEAR':pm})
    except Exception as e: r='EXC %r'%e
    N+=1
    if r!=exp:
        k=(f,); fails[k]+=1; ex.setdefault(k,(s,pd,pm,str(r),str(exp)))
print('N',N,'fails',sum(fails.values()),time.time()-t0)
for k,v in sorted(fails.items(),key=lambda x:str(x))[:40]: print(k,v,ex[k])
