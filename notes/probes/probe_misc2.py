import datetime as dt, collections, random, calendar, pytz, json
import dateparser
from dateparser.utils import get_timezone_from_tz_string
rnd=random.Random(3)
UTC=dt.timezone.utc
# C04 implicit now
zones=['UTC','America/New_York','Asia/Kolkata','Australia/Lord_Howe','Pacific/Kiritimati','EST','+0530','UTC-09:30','Europe/London','local']
bad=[];n=0
for A in zones:
    for Bz in [None]+zones[:-1]:
        for phrase,delta in (('now',dt.timedelta(0)),('3 hours ago',-dt.timedelta(hours=3)),('in 90 minutes',dt.timedelta(minutes=90)),('1 hour ago',-dt.timedelta(hours=1))):
            st={'TIMEZONE':A}
            if Bz: st['TO_TIMEZONE']=Bz
            t0=dt.datetime.now(UTC); r=dateparser.parse(phrase,languages=['en'],settings=st); t1=dt.datetime.now(UTC)
            n+=1
            zone=Bz or A
            tz=UTC if zone=='local' else get_timezone_from_tz_string(zone)
            if r is None or r.tzinfo is not None: bad.append((phrase,st,str(r))); continue
            inst=(tz.localize(r) if hasattr(tz,'localize') else r.replace(tzinfo=tz)).astimezone(UTC)-delta
            if not (t0<=inst<=t1): bad.append((phrase,st,str(r),str(t0)))
print('C04 implicit-now cases',n,'bad',len(bad),bad[:5])
# C12 abbreviations/offsets as zones
bad=[];n=0
pool=['EST','PST','CET','IST','+0530','-0800','UTC+3','UTC-09:30','Asia/Tokyo','Europe/Paris','UTC']
for i in range(1500):
    A=rnd.choice(pool); Bz=rnd.choice(pool)
    d=dt.datetime(rnd.randrange(1950,2038),rnd.randrange(1,13),rnd.randrange(1,29),rnd.randrange(24),rnd.randrange(60))
    ta=get_timezone_from_tz_string(A); tb=get_timezone_from_tz_string(Bz)
    try: ia=ta.localize(d,is_dst=None) if isinstance(ta,pytz.tzinfo.BaseTzInfo) and hasattr(ta,'_utc_transition_times') else (ta.localize(d) if hasattr(ta,'localize') else d.replace(tzinfo=ta))
    except Exception: continue
    exp=ia.astimezone(tb)
    aware=rnd.choice([True,False,None]); st={'TIMEZONE':A,'TO_TIMEZONE':Bz}
    if aware is not None: st['RETURN_AS_TIMEZONE_AWARE']=aware
    kind=rnd.choice(['abs','fmt','ts'])
    if kind=='abs': r=dateparser.parse(d.strftime('%Y-%m-%d %H:%M'),languages=['en'],settings=st)
    elif kind=='fmt': r=dateparser.parse(d.strftime('%d.%m.%Y %H|%M'),date_formats=['%d.%m.%Y %H|%M'],settings=st)
    else:
        if ia.year<2002: continue
        r=dateparser.parse(str(int(ia.timestamp())),languages=['en'],settings=st)
    n+=1
    ok=r is not None and ((aware is True and r.tzinfo is not None and r==exp and r.replace(tzinfo=None)==exp.replace(tzinfo=None)) or (aware is not True and r.tzinfo is None and r==exp.replace(tzinfo=None)))
    if not ok: bad.append((kind,st,str(d),str(r),str(exp)))
print('C12 abbr/offset zones',n,'bad',len(bad),bad[:5])
# C14 localized weekday + C08 custom-format
from dateparser.data.languages_info import language_order
from dateparser.languages.loader import LocaleDataLoader
from dateparser.date import DateDataParser
loader=LocaleDataLoader()
WD=["monday","tuesday","wednesday","thursday","friday","saturday","sunday"]
ENW=set(w for x in WD for w in (x,x[:3]))
bad=[];n=0;skipped=0
for lang in language_order:
    loc=loader.get_locale(lang); info=loc.info
    st=DateDataParser(languages=[lang])._settings
    meaning=collections.defaultdict(set)
    for k,v in info.items():
        if isinstance(v,list) and k!='simplifications':
            for w in v:
                if isinstance(w,str): meaning[w.lower()].add(k)
    for k,v in info.get('relative-type',{}).items():
        for w in v: meaning[w.lower()].add('rel:'+k)
    for wi,k in enumerate(WD):
        for w in info.get(k,[]):
            if len(meaning[w.lower()])!=1: continue
            if loc.translate(w,keep_formatting=False,settings=st).strip()!=k: skipped+=1; continue
            d=dt.datetime(2013,5,13)+dt.timedelta(days=wi)  # 2013-05-13 is a Monday
            s='%s %02d/%02d/%04d'%(w,d.day,d.month,d.year); fmt='%A %d/%m/%Y' 
            try: raw=dt.datetime.strptime(s,fmt)
            except ValueError: raw=None
            n+=1
            r=dateparser.parse(s,date_formats=[fmt,'%a %d/%m/%Y'],languages=[lang],settings={'PARSERS':['custom-formats']})
            if r!=(raw or d): bad.append((lang,k,w,str(r)))
print('C14 weekday names',n,'skipped(not resolving alone)',skipped,'bad',len(bad),collections.Counter(b[0] for b in bad).most_common(12),bad[:8])
bad=[];n=0
for i in range(2000):
    y=rnd.randrange(1900,2101); m=rnd.randrange(1,13)
    pd=rnd.choice(['first','last']); pm=rnd.choice(['first','last'])
    kind=rnd.choice(['%B %Y','%m/%Y','%Y','%b %y'])
    d=dt.datetime(y,m,1)
    s=d.strftime(kind) if kind!='%Y' else '%04d'%y
    yy=y if '%Y' in kind else ((2000 if y%100<69 else 1900)+y%100)
    mm=m if kind!='%Y' else {'first':1,'last':12}[pm]
    dd={'first':1,'last':calendar.monthrange(yy,mm)[1]}[pd]
    r=DateDataParser(languages=['en'],settings={'PREFER_DAY_OF_MONTH':pd,'PREFER_MONTH_OF_YEAR':pm}).get_date_data(s,[kind])
    n+=1
    if (r.date_obj,r.period)!=(dt.datetime(yy,mm,dd),'year' if kind=='%Y' else 'month'): bad.append((s,kind,pd,pm,str(r)))
print('C08 custom-format',n,'bad',len(bad),bad[:5])
