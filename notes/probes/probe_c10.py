import json, datetime as dt, collections, time, itertools
import dateparser
corpus=json.load(open('/tmp/corpus_raw.json'))
b1=dt.datetime(1987,3,14,5,6,7); b2=dt.datetime(2031,11,29,18,45,1)
fails=collections.Counter(); ex={}; N=0; nn=0
t0=time.time()
ABS=['timestamp','custom-formats','absolute-time']
def P(s,lang,**st):
    try: return dateparser.parse(s,languages=[lang] if lang else None,settings=st)
    except Exception as e: return 'EXC %s'%type(e).__name__
from dateparser.date import DateDataParser
_dp=DateDataParser()
for s,fn,lang in corpus:
    if not lang: lang=_dp.get_date_data(s).locale
    if not lang: continue
    N+=1
    res={}
    for bi,b in enumerate((b1,b2)):
        loose=P(s,lang,RELATIVE_BASE=b,PARSERS=ABS)
        strict=P(s,lang,RELATIVE_BASE=b,PARSERS=ABS,STRICT_PARSING=True)
        res[bi]=(loose,strict)
        if strict is not None:
            nn+=1
            if strict!=loose:
                k=('strict changes value',); fails[k]+=1; ex.setdefault(k,(s,lang,str(loose),str(strict)))
        for parts in (['day'],['month'],['year'],['day','month'],['month','year'],['day','year']):
            rp=P(s,lang,RELATIVE_BASE=b,PARSERS=ABS,REQUIRE_PARTS=parts)
            res[bi,tuple(parts)]=rp
            if rp is not None and rp!=loose:
                k=('require changes value',tuple(parts)); fails[k]+=1; ex.setdefault(k,(s,lang,str(loose),str(rp)))
    if res[0][1]!=res[1][1]:
        k=('strict depends on clock',); fails[k]+=1; ex.setdefault(k,(s,lang,str(res[0][1]),str(res[1][1])))
    for parts in (['day'],['month'],['year'],['day','month'],['month','year'],['day','year']):
        a,b_=res[0,tuple(parts)],res[1,tuple(parts)]
        if (a is not None and b_ is not None and not isinstance(a,str) and not isinstance(b_,str) and any(getattr(a,x)!=getattr(b_,x) for x in parts)):
            k=('required part depends on clock',tuple(parts)); fails[k]+=1; ex.setdefault(k,(s,lang,str(a),str(b_)))
print('N',N,'strict non-None',nn,'fails',sum(fails.values()),time.time()-t0)
for k,v in sorted(fails.items(),key=lambda x:-x[1])[:40]: print(k,v,ex[k])
