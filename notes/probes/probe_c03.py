import random, datetime as dt, collections, time, json, sys, subprocess, os, copy, pickle, base64
B=dt.datetime(2012,11,13,14,15,16)
def pool():
    P=[]
    strs=[('en','12 May 2015'),('en','02/03/2015'),('fr','02/03/2015'),('fr','12 mai 2015 à 10:45'),('fr','il y a 3 jours'),('de','vor 2 Tagen'),('de','3. Januar 2011'),
          ('es','hace 2 semanas'),('ru','12 мая 2015 г.'),('ja','2015年5月12日'),('zh','昨天'),(None,'yesterday'),(None,'12 mai 2015'),(None,'1 hour ago'),('en','Monday'),
          ('en','t 12 May 2015 xyz'),('fr','le 3 sept 2015'),('en','2015-05-12T10:45:00'),('ar','١٢ مايو ٢٠١٥'),('hi','12 मई 2015'),('en','in 2 days'),('en','May 2015'),(None,'10:45'),('pt','há 2 dias'),('en','1500000000')]
    sets=[{},{'DATE_ORDER':'DMY'},{'DATE_ORDER':'YMD'},{'NORMALIZE':False},{'SKIP_TOKENS':['xyz']},{'SKIP_TOKENS':[]},{'CACHE_SIZE_LIMIT':1},{'CACHE_SIZE_LIMIT':2},{'CACHE_SIZE_LIMIT':0},
          {'PREFER_LOCALE_DATE_ORDER':False},{'DEFAULT_LANGUAGES':['fr']},{'PARSERS':['absolute-time']},{'STRICT_PARSING':True},{'PREFER_DATES_FROM':'future'},{'TIMEZONE':'UTC','TO_TIMEZONE':'Asia/Tokyo'},{'RETURN_AS_TIMEZONE_AWARE':True},
          {'NORMALIZE':False,'SKIP_TOKENS':['le']},{'DATE_ORDER':'DMY','CACHE_SIZE_LIMIT':1},{'BOGUS':1},{'DATE_ORDER':'XYZ'}]
    for l,s in strs:
        for st in sets:
            P.append(('parse',s,l,st))
    texts=[('en','I saw him on 12 May 2015 and two days ago.'),('fr','Nous sommes le 3 mars 2011. Hier il a plu.'),(None,'Meeting on 02/03/2015 at 10:45'),('de','Am 3. Januar 2011 und gestern.'),('ru','Это было 12 мая 2015 г. и вчера'),('zh','上個月'),('en','Monday, then 2015-01-01. yesterday')]
    for l,t in texts:
        for st in sets[:12]:
            P.append(('search',t,l,st))
    P.append(('jalali','13 مرداد 1395',None,{})); P.append(('hijri','1437/05/13',None,{}))
    return P
def run(call):
    kind,s,l,st=call
    st=dict(st); 
    if kind in('parse','search') and 'BOGUS' not in st: st['RELATIVE_BASE']=B
    st0=copy.deepcopy(st); langs=[l] if l else None; langs0=copy.deepcopy(langs)
    try:
        if kind=='parse':
            import dateparser; r=dateparser.parse(s,languages=langs,settings=st)
        elif kind=='search':
            from dateparser.search import search_dates; r=search_dates(s,languages=langs,settings=st)
        elif kind=='jalali':
            from dateparser.calendars.jalali import JalaliCalendar; r=JalaliCalendar(s).get_date(); r=r and (r.date_obj,r.period)
        else:
            from dateparser.calendars.hijri import HijriCalendar; r=HijriCalendar(s).get_date(); r=r and (r.date_obj,r.period)
        out=('ok',repr(r))
    except Exception as e: out=('exc',type(e).__name__)
    if st!=st0 or langs!=langs0: out=out+('ARGS MUTATED',)
    return out
if __name__=='__main__':
    P=pool()
    if sys.argv[1]=='fresh':
        i=int(sys.argv[2]); print(json.dumps(run(P[i]))); sys.exit()
    if sys.argv[1]=='ref':
        from concurrent.futures import ThreadPoolExecutor
        def f(i): return json.loads(subprocess.run([sys.executable,__file__,'fresh',str(i)],capture_output=True,text=True,timeout=120).stdout)
        with ThreadPoolExecutor(16) as ex: ref=list(ex.map(f,range(len(P))))
        json.dump(ref,open('/tmp/c03_ref.json','w')); print(len(ref), collections.Counter(r[0]+(':'+r[1] if r[0]=='exc' else '') for r in ref)); sys.exit()
    ref=json.load(open('/tmp/c03_ref.json'))
    rnd=random.Random(int(sys.argv[2])); n=int(sys.argv[3])
    fails=collections.Counter(); ex={}; hist=[]
    for step in range(n):
        i=rnd.randrange(len(P)); hist.append(i)
        out=list(run(P[i]))
        if out!=ref[i]:
            k=(P[i][0],out[0],out[1] if out[0]=='exc' else 'value', json.dumps(P[i][3])); fails[k]+=1; ex.setdefault(k,(step,P[i],out,ref[i],hist[-6:]))
    print('steps',n,'fails',sum(fails.values()))
    for k,v in sorted(fails.items(),key=lambda x:-x[1])[:30]: print(k,v,ex[k])
