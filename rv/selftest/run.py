"""Self-test of the monitors: apply a small realistic break to a scratch copy of /repo
(outside /repo and /verif), run the property's check with VERIF_REPO pointing at it,
expect exit 1 with a VIOLATION line that is not a known finding, remove the copy.

  python -m rv.selftest.run --patch rv/selftest/mutants/C04-swap-sign.diff --props C04
  python -m rv.selftest.run --reverse-fix 198b4b0 --props C19
  python -m rv.selftest.run --table rv/selftest/table.json [--only C04]
"""
import argparse
import json
import os
import shutil
import subprocess
import sys
import tempfile
import time

VERIF = os.path.dirname(os.path.dirname(os.path.dirname(os.path.abspath(__file__))))
REPO = "/repo"


def make_copy():
    d = tempfile.mkdtemp(prefix="rv-selftest-")
    subprocess.run(["git", "-C", REPO, "worktree", "add", "-q", "--detach", d, "HEAD"], check=True,
                   stdout=subprocess.DEVNULL, stderr=subprocess.DEVNULL)
    # the working tree of /repo may carry uncommitted edits (a seeded change under test): mirror them
    diff = subprocess.run(["git", "-C", REPO, "diff", "HEAD"], capture_output=True).stdout
    if diff.strip():
        subprocess.run(["git", "-C", d, "apply"], input=diff, check=True)
    return d


def remove_copy(d):
    subprocess.run(["git", "-C", REPO, "worktree", "remove", "--force", d], stdout=subprocess.DEVNULL, stderr=subprocess.DEVNULL)
    shutil.rmtree(d, ignore_errors=True)
    subprocess.run(["git", "-C", REPO, "worktree", "prune"], stdout=subprocess.DEVNULL, stderr=subprocess.DEVNULL)


def apply_patch(d, patch_bytes, reverse=False):
    cmd = ["git", "-C", d, "apply"] + (["-R"] if reverse else [])
    p = subprocess.run(cmd, input=patch_bytes, capture_output=True)
    if p.returncode != 0:
        raise RuntimeError("patch does not apply: %s" % p.stderr.decode()[-400:])


def run_check(prop, d, tier="quick", seed=0, timeout=1800):
    env = dict(os.environ, VERIF_REPO=d, VERIF_SEED=str(seed), RV_EVIDENCE_DIR=os.path.join(d, ".rv-evidence"),
               RV_REPLAY_DIR=os.path.join(d, ".rv-replays"))     # per-copy, so that several mutants can run side by side
    t0 = time.time()
    p = subprocess.run([os.path.join(VERIF, "check"), prop, tier], capture_output=True, text=True, env=env, timeout=timeout)
    lines = p.stdout.splitlines()
    viol = [l for l in lines if l.startswith("VIOLATION")]
    inc = [l for l in lines if l.startswith("INCONCLUSIVE")]
    out = {"prop": prop, "rc": p.returncode, "violations": len(viol), "first": (viol or inc or [""])[0][:260],
           "wall": round(time.time() - t0, 1), "stderr": p.stderr[-300:], "replay": None}
    if viol and os.environ.get("RV_SELFTEST_REPLAY", "1") == "1":
        # the replay file of the first violation must reproduce it on the broken tree
        path = viol[0].split("replay=")[1].split()[0]
        try:
            rp = subprocess.run([os.path.join(VERIF, "check"), prop, "--replay", path], capture_output=True, text=True,
                                env=env, timeout=600)
            out["replay"] = "reproduced" if rp.returncode == 1 and "VIOLATION" in rp.stdout else \
                "NOT reproduced (rc=%s %s)" % (rp.returncode, (rp.stdout + rp.stderr)[-160:].replace("\n", " "))
        except Exception as e:
            out["replay"] = "replay failed: %r" % e
    return out


def one(name, patch_bytes, props, reverse=False, tier="quick", expect="violation"):
    d = make_copy()
    try:
        try:
            apply_patch(d, patch_bytes, reverse)
        except RuntimeError as e:
            return {"mutant": name, "results": [], "caught_by": ["(not applicable: %s)" % str(e)[:80]]}
        out = []
        for prop in props:
            r = run_check(prop, d, tier)
            r["caught"] = r["rc"] == 1 and r["violations"] > 0
            out.append(r)
        return {"mutant": name, "results": out, "caught_by": [r["prop"] for r in out if r["caught"]]}
    finally:
        remove_copy(d)


def main():
    ap = argparse.ArgumentParser()
    ap.add_argument("--patch")
    ap.add_argument("--reverse-fix")
    ap.add_argument("--props", default="")
    ap.add_argument("--table")
    ap.add_argument("--only")
    ap.add_argument("--tier", default="quick")
    ap.add_argument("--jobs", type=int, default=1)
    a = ap.parse_args()
    results = []
    if a.table:
        from concurrent.futures import ThreadPoolExecutor

        table = json.load(open(a.table))

        def do(row):
            if row.get("reverse_fix"):
                pb = subprocess.run(["git", "-C", REPO, "show", "--format=", row["reverse_fix"]], capture_output=True).stdout
                return one(row["name"], pb, row["props"], reverse=True, tier=a.tier)
            pb = open(os.path.join(VERIF, row["patch"]), "rb").read()
            return one(row["name"], pb, row["props"], tier=a.tier)

        rows = [row for row in table if not (a.only and a.only not in row["props"] and a.only != row["name"])]
        with ThreadPoolExecutor(max_workers=a.jobs) as ex:
            it = ex.map(do, rows)
            for r in it:
                results.append(r)
                print("%-48s caught_by=%s %s" % (r["mutant"], r["caught_by"] or "NONE",
                                                  "; ".join("%s rc=%s %ss replay=%s" % (x["prop"], x["rc"], x["wall"], x.get("replay")) for x in r["results"])), flush=True)
                for x in r["results"]:
                    if not x["caught"]:
                        print("     MISSED by %s: %s %s" % (x["prop"], x["first"], x["stderr"][-200:].replace("\n", " ")))
    else:
        props = [p for p in a.props.split(",") if p]
        if a.reverse_fix:
            pb = subprocess.run(["git", "-C", REPO, "show", "--format=", a.reverse_fix], capture_output=True).stdout
            r = one("reverse:" + a.reverse_fix, pb, props, reverse=True, tier=a.tier)
        else:
            r = one(os.path.basename(a.patch), open(a.patch, "rb").read(), props, tier=a.tier)
        results.append(r)
        print(json.dumps(r, indent=1))
    missed = [r["mutant"] for r in results if not r["caught_by"]]
    print("self-test: %d mutants, %d caught, missed: %s" % (len(results), len(results) - len(missed), missed))
    sys.exit(1 if missed else 0)


if __name__ == "__main__":
    main()
