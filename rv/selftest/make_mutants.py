"""Generates rv/selftest/mutants/*.diff and table.json from (name, props, file, old, new) edits
applied one at a time to a scratch worktree of /repo HEAD.  Run after /repo changes:
    python -m rv.selftest.make_mutants"""
import json
import os
import subprocess
import tempfile

VERIF = os.path.dirname(os.path.dirname(os.path.dirname(os.path.abspath(__file__))))
REPO = "/repo"

M = [
    # C01
    ("C01-drop-usec-padding", ["C01"], "dateparser/utils/strptime.py",
     '            ms = ms + ((6 - len(ms)) * "0")\n            obj = obj.replace(microsecond=int(ms))\n        except AttributeError:',
     '            obj = obj.replace(microsecond=int(ms))\n        except AttributeError:'),
    ("C01-millis-factor", ["C01"], "dateparser/date.py", "microsecond=millis * 1000 + micros", "microsecond=millis * 100 + micros"),
    # C02
    ("C02-freshness-overflow-escapes", ["C02", "C04"], "dateparser/date.py",
     "        except (OverflowError, ValueError):\n            return None", "        except ValueError:\n            return None"),
    ("C02-skip-extra-check", ["C02"], "dateparser/conf.py", "        if extra_check:\n            extra_check(setting_name, setting_value)", "        if extra_check and False:\n            extra_check(setting_name, setting_value)"),
    ("C02-unknown-parsers-accepted", ["C02"], "dateparser/conf.py", "    if unknown_parsers:\n        raise SettingValidationError(", "    if unknown_parsers and False:\n        raise SettingValidationError("),
    # C03
    ("C03-date-order-not-restored-on-error", ["C03", "C07"], "dateparser/date.py",
     "        except (OverflowError, ValueError):\n            self._settings.DATE_ORDER = _order\n            return None",
     "        except (OverflowError, ValueError):\n            return None"),
    ("C03-cache-key-without-settings", ["C03"], "dateparser/languages/dictionary.py",
     "        cache.setdefault(self._settings.registry_key, {})[self.info[\"name\"]] = value",
     "        cache.setdefault(\"k\", {})[self.info[\"name\"]] = value\n        cache[self._settings.registry_key] = cache[\"k\"]"),
    ("C03-caller-dict-mutated", ["C03"], "dateparser/conf.py",
     "        for x in self._get_settings_from_pyfile().keys():\n            kwds.setdefault(x, getattr(self, x))",
     "        for x in self._get_settings_from_pyfile().keys():\n            kwds.setdefault(x, getattr(self, x))\n        if mod_settings is not None and isinstance(mod_settings, dict):\n            mod_settings.setdefault(\"NORMALIZE\", kwds[\"NORMALIZE\"])"),
    # C04
    ("C04-swap-sign", ["C04", "C06"], "dateparser/freshness_date_parser.py", "            date = now + td\n        else:\n            date = now - td",
     "            date = now - td\n        else:\n            date = now + td"),
    ("C04-decade-factor", ["C04"], "dateparser/freshness_date_parser.py", 'kwargs["years"] = 10 * kwargs["decades"]', 'kwargs["years"] = 100 * kwargs["decades"]'),
    ("C04-period-order", ["C04"], "dateparser/freshness_date_parser.py", 'for k in ["weeks", "months", "years"]:', 'for k in ["months", "weeks", "years"]:'),
    ("C04-no-decimals", ["C04", "C06"], "dateparser/freshness_date_parser.py", r'PATTERN = re.compile(r"(\d+[.,]?\d*)\s*(%s)\b"', r'PATTERN = re.compile(r"(\d+)\s*(%s)\b"'),
    # C05
    ("C05-split-regex-ascending", ["C05", "C06"], "dateparser/languages/dictionary.py",
     "                value=sorted([key for key in self], key=len, reverse=True),", "                value=sorted([key for key in self], key=len),"),
    ("C05-drop-locale-overlay-lists", ["C05"], "dateparser/utils/__init__.py",
     "            if isinstance(value, list):\n                combined_dict[key] = value + supplementary_dict[key]",
     "            if isinstance(value, list):\n                combined_dict[key] = value"),
    # C06
    ("C06-no-named-group", ["C06"], "dateparser/languages/locale.py", 'pattern = pattern.replace(r"(\\d+", r"(?P<n>\\d+")', 'pattern = pattern.replace(r"(\\d+", r"(\\d+")'),
    ("C06-relative-strings-ascending", ["C06"], "dateparser/languages/dictionary.py",
     "                    key=len,\n                    reverse=True,\n                ),\n            )\n        return self._sorted_relative_strings_cache",
     "                    key=len,\n                ),\n            )\n        return self._sorted_relative_strings_cache"),
    # C07
    ("C07-ignore-skip-component", ["C07", "C01"], "dateparser/parser.py", "                if skip_component == component:\n                    continue\n                for directive in directives:\n                    try:\n                        do = self._get_date_obj(token, directive)\n                        prev_value = getattr(self, component, None)\n                        if not prev_value:\n                            return set_and_return(token, type, component, do)",
     "                for directive in directives:\n                    try:\n                        do = self._get_date_obj(token, directive)\n                        prev_value = getattr(self, component, None)\n                        if not prev_value:\n                            return set_and_return(token, type, component, do)"),
    ("C07-locale-order-overrides-explicit", ["C07"], "dateparser/date.py", '                if "DATE_ORDER" not in self._settings._mod_settings:', "                if True:"),
    # C08
    ("C08-fallback-first", ["C08"], "dateparser/utils/__init__.py",
     '    try:\n        return date_obj.replace(day=options[settings.PREFER_DAY_OF_MONTH])\n    except ValueError:\n        return date_obj.replace(day=options["last"])',
     '    try:\n        return date_obj.replace(day=options[settings.PREFER_DAY_OF_MONTH])\n    except ValueError:\n        return date_obj.replace(day=options["first"])'),
    ("C08-period-order", ["C08"], "dateparser/parser.py", '        for period in ["month", "year"]:\n            if getattr(self, period, None):\n                return period', '        for period in ["year", "month"]:\n            if getattr(self, period, None):\n                return period'),
    ("C08-format-missing-day-on-month", ["C08", "C14"], "dateparser/date.py", 'missing_day = not any(d in date_format for d in ["%d", "%j"])', 'missing_day = not any(d in date_format for d in ["%m", "%j"])'),
    # C09
    ("C09-same-weekday-no-step", ["C09"], "dateparser/parser.py", "                if days[day_index] == day:\n                    steps = 7\n                else:\n                    while days[day_index] != day:\n                        day_index = (day_index + 1) % 7",
     "                if days[day_index] == day:\n                    steps = 0\n                else:\n                    while days[day_index] != day:\n                        day_index = (day_index + 1) % 7"),
    ("C09-two-digit-pivot", ["C09"], "dateparser/parser.py", "dateobj = dateobj.replace(year=dateobj.year - 100)", "dateobj = dateobj.replace(year=dateobj.year - 10)"),
    ("C09-no-past-year-shift", ["C09"], "dateparser/parser.py", '                    if self.settings.PREFER_DATES_FROM == "past":\n                        dateobj = dateobj.replace(year=dateobj.year - 1)', '                    if self.settings.PREFER_DATES_FROM == "pastx":\n                        dateobj = dateobj.replace(year=dateobj.year - 1)'),
    # C10
    ("C10-strict-ignores-day", ["C10"], "dateparser/parser.py", "    if settings.STRICT_PARSING and missing:\n        raise ValueError(_get_missing_error(missing))",
     "    if settings.STRICT_PARSING and [m for m in missing if m != \"day\"]:\n        raise ValueError(_get_missing_error(missing))"),
    ("C10-missing-parts-without-b", ["C10"], "dateparser/utils/__init__.py", '"month": ["%b", "%B", "%m", "%-m", "%j", "%-j"],', '"month": ["%B", "%j", "%-j"],'),
    ("C10-require-parts-only-first", ["C10"], "dateparser/parser.py", "        errors = [part for part in settings.REQUIRE_PARTS if part in missing]", "        errors = [part for part in settings.REQUIRE_PARTS[:1] if part in missing]"),
    # C11
    ("C11-flip-sign-of-one-entry", ["C11", "C16"], "dateparser/timezones.py", '(r"UTC\\+05:45", 20700),', '(r"UTC\\+05:45", -20700),'),
    ("C11-remove-getinitargs", ["C11"], "dateparser/timezone_parser.py", "    def __getinitargs__(self):\n        return self.__name, self.__offset\n", ""),
    ("C11-naive-when-default", ["C11", "C12"], "dateparser/date_parser.py", '            and "default" == settings.RETURN_AS_TIMEZONE_AWARE\n            and not ptz\n        ):\n            date_obj = date_obj.replace(tzinfo=None)\n\n        return date_obj, period',
     '            and "default" == settings.RETURN_AS_TIMEZONE_AWARE\n        ):\n            date_obj = date_obj.replace(tzinfo=None)\n\n        return date_obj, period'),
    # C12
    ("C12-replace-tzinfo-instead-of-localize", ["C12"], "dateparser/utils/__init__.py", '    if hasattr(tz, "localize"):\n        date_time = tz.localize(date_time)\n    else:\n        date_time = date_time.replace(tzinfo=tz)\n\n    return date_time',
     '    date_time = date_time.replace(tzinfo=tz)\n\n    return date_time'),
    ("C12-formats-skip-tz", ["C12", "C02"], "dateparser/date.py", "            try:\n                date_obj = apply_timezone_from_settings(date_obj, settings)\n            except OverflowError:\n                continue\n", ""),
    ("C12-awareness-is-false", ["C12"], "dateparser/utils/__init__.py", "    if settings.RETURN_AS_TIMEZONE_AWARE is not True:", "    if settings.RETURN_AS_TIMEZONE_AWARE is False:"),
    # C13
    ("C13-no-language-order-sort", ["C13"], "dateparser/languages/loader.py", "        if not use_given_order:\n            locale_dict = OrderedDict(", "        if False:\n            locale_dict = OrderedDict("),
    ("C13-default-languages-first", ["C13"], "dateparser/date.py", "        if self.try_previous_locales:\n            for locale in self.previous_locales.keys():",
     "        if self._settings.DEFAULT_LANGUAGES:\n            for locale in self._get_locale_loader().get_locales(languages=self._settings.DEFAULT_LANGUAGES, locales=None, region=self.region, use_given_order=self.use_given_order):\n                yield locale\n        if self.try_previous_locales:\n            for locale in self.previous_locales.keys():"),
    # C14
    ("C14-year-default-always", ["C14", "C08"], "dateparser/date.py", '            if not ("%y" in date_format or "%Y" in date_format):', '            if not ("%y" in date_format):'),
    ("C14-no-raw-shortcut", ["C14"], "dateparser/date.py", "        with _lock:\n            return self._get_date_data(date_string, date_formats)\n\n    def _get_date_data(self, date_string, date_formats=None):\n        res = parse_with_formats(date_string, date_formats or [], self._settings)",
     "        with _lock:\n            return self._get_date_data(date_string, date_formats)\n\n    def _get_date_data(self, date_string, date_formats=None):\n        res = parse_with_formats(date_string, [], self._settings)"),
    # C15
    ("C15-day-bound-strict", ["C15"], "dateparser/calendars/__init__.py", "            and 0 < int(token) <= self.calendar_converter.month_length(year, month)", "            and 0 < int(token) < self.calendar_converter.month_length(year, month)"),
    ("C15-hijri-pivot", ["C15"], "dateparser/calendars/hijri_parser.py", "        g = Hijri(year=year, month=month, day=day, validate=False).to_gregorian()", "        g = Hijri(year=year, month=month, day=min(day, 29), validate=False).to_gregorian()"),
    # C16
    ("C16-edit-yaml-without-regenerating", ["C16"], "dateparser_data/supplementary_language_data/date_translation_data/fr.yaml", "    - sept: '7'", "    - sept: '8'"),
    ("C16-index-drop-language", ["C16"], "dateparser/data/languages_info.py", '    "en",\n    "ru",', '    "en",'),
    # C17
    ("C17-reverse-hits", ["C17"], "dateparser/search/search.py", '        return list(zip(substrings, [i[0]["date_obj"] for i in parsed]))', '        return list(zip(substrings, [i[0]["date_obj"] for i in parsed]))[::-1]'),
    ("C17-return-translated-chunk", ["C17"], "dateparser/search/search.py", '                substrings.append(original[i].strip(" .,:()[]-\'"))', '                substrings.append(translated[i].strip(" .,:()[]-\'"))'),
    # C18
    ("C18-no-trim-colons", ["C18"], "dateparser/date.py", '    date_string = RE_TRIM_COLONS.sub(r"\\1", date_string)\n', ""),
    ("C18-numerals-ascii-only", ["C18"], "dateparser/languages/locale.py", 'NUMERAL_PATTERN = re.compile(r"(\\d+)", re.U)', 'NUMERAL_PATTERN = re.compile(r"([0-9]+)", re.U)'),
    # C19
    ("C19-eoferror-not-caught", ["C19"], "dateparser/timezone_parser.py", "    except Exception:\n        # a missing", "    except (FileNotFoundError, ValueError, TypeError, pickle.UnpicklingError):\n        # a missing"),
    # C20
    ("C20-get_date_data-unlocked", ["C20"], "dateparser/date.py", "        with _lock:\n            return self._get_date_data(date_string, date_formats)", "        return self._get_date_data(date_string, date_formats)"),
    ("C20-apply_settings-unlocked", ["C20"], "dateparser/conf.py", "        with _lock:\n            mod_settings = kwargs.get(\"settings\")", "        if True:\n            mod_settings = kwargs.get(\"settings\")"),
    # second generation (replacing mutants that turned out to be behaviourally equivalent on the property's domain)
    ("C01-no-fractional-time-directive", ["C01"], "dateparser/parser.py", '        "%H:%M:%S.%f",\n', ""),
    ("C02-languages-not-type-checked", ["C02"], "dateparser/date.py",
     "        if languages is not None and not isinstance(languages, (list, tuple, Set)):", "        if False:"),
    ("C03-settings-key-ignores-skip-tokens-and-mods", ["C03"], "dateparser/conf.py",
     '        keys = sorted(["%s-%s" % (key, str(settings[key])) for key in settings])',
     '        keys = sorted(["%s-%s" % (key, str(settings[key])) for key in settings if key not in ("SKIP_TOKENS", "_mod_settings")])'),
    ("C05-dictionary-not-lowercased", ["C05"], "dateparser/languages/dictionary.py",
     '                translations = map(methodcaller("lower"), locale_info[word])', "                translations = locale_info[word]"),
    ("C06-relative-number-lost", ["C06", "C04"], "dateparser/languages/locale.py",
     "                    date_string_tokens[i] = pattern.sub(replacement, word)", "                    date_string_tokens[i] = replacement.replace(chr(92) + '1', '1')"),
    ("C07-mdy-read-as-dmy", ["C07"], "dateparser/parser.py", '        "MDY": ["month", "day", "year"],', '        "MDY": ["day", "month", "year"],'),
    ("C15-persian-digit-table", ["C15"], "dateparser/calendars/jalali_parser.py", '        "۴": 4,', '        "۴": 5,'),
    ("C17-strip-digits-from-substrings", ["C17"], "dateparser/search/search.py",
     '                substrings.append(original[i].strip(" .,:()[]-\'"))', '                substrings.append(original[i].strip(" .,:()[]-\'0123456789/"))'),
    ("C18-nbsp-not-normalised", ["C18"], "dateparser/date.py",
     '    date_string = RE_NBSP.sub(" ", date_string)\n    date_string = RE_SPACES.sub(" ", date_string)', '    date_string = re.sub(" +", " ", date_string)'),
    ("C10-formats-ignore-strictness(reverse of 4f7ff90)", ["C10"], "dateparser/date.py",
     "            try:\n                _check_strict_parsing(_get_missing_parts(date_format), settings)\n            except ValueError:\n                continue\n\n", ""),
    ("C19-rewrite-only-when-missing", ["C19"], "dateparser/timezone_parser.py",
     '    tmp_path = "%s.%d.tmp" % (cache_path, os.getpid())\n    try:', '    if os.path.exists(cache_path):\n        return\n    tmp_path = "%s.%d.tmp" % (cache_path, os.getpid())\n    try:'),
]


def main():
    d = tempfile.mkdtemp(prefix="rv-mut-")
    subprocess.run(["git", "-C", REPO, "worktree", "add", "-q", "--detach", d, "HEAD"], check=True)
    outdir = os.path.join(VERIF, "rv", "selftest", "mutants")
    os.makedirs(outdir, exist_ok=True)
    table = []
    try:
        for name, props, path, old, new in M:
            fp = os.path.join(d, path)
            s = open(fp, encoding="utf-8").read()
            if s.count(old) != 1:
                print("SKIP %s: anchor text found %d times in %s" % (name, s.count(old), path))
                continue
            open(fp, "w", encoding="utf-8").write(s.replace(old, new))
            diff = subprocess.run(["git", "-C", d, "diff"], capture_output=True).stdout
            subprocess.run(["git", "-C", d, "checkout", "--", "."], check=True)
            open(os.path.join(outdir, name + ".diff"), "wb").write(diff)
            table.append({"name": name, "props": props, "patch": "rv/selftest/mutants/%s.diff" % name})
        fixes = subprocess.run(["git", "-C", REPO, "log", "--format=%h %s", "--grep=^fix:"], capture_output=True, text=True).stdout
        kf = json.load(open(os.path.join(VERIF, "known_findings.json")))["findings"]
        by_commit = {f["commit"]: f["property"] for f in kf if f.get("status") == "fixed"}
        for line in fixes.splitlines():
            h = line.split()[0]
            props = sorted({p for c, p in by_commit.items() if c.startswith(h) or h.startswith(c)})
            table.append({"name": "reverse-fix-" + h, "props": props, "reverse_fix": h})
        json.dump(table, open(os.path.join(VERIF, "rv", "selftest", "table.json"), "w"), indent=1)
        print("%d mutants written" % len(table))
    finally:
        subprocess.run(["git", "-C", REPO, "worktree", "remove", "--force", d])


if __name__ == "__main__":
    main()
