"""Which library lines did the workload actually execute under the monitors?

A sys.monitoring LINE callback that switches itself off per location after the first hit (DISABLE), so the cost is one
callback per distinct line per worker.  The merged result goes into the evidence file (per anchor file: executed of
executable lines) and, in full, into .scratch/linecov/<prop>-<tier>.json for tools/linecov.py, which lists the
functions and lines of the property's anchor files that no case of the workload reached.  Observation only: it never
influences a verdict.
"""
import os
import sys

TOOL = 1     # sys.monitoring.COVERAGE_ID
_seen = set()
_on = False


def start(repo):
    global _on
    if os.environ.get("RV_LINECOV", "1") != "1" or not hasattr(sys, "monitoring"):
        return False
    mon = sys.monitoring
    try:
        mon.use_tool_id(TOOL, "rv-linecov")
    except ValueError:
        return False
    prefix = os.path.join(os.path.realpath(repo), "dateparser") + os.sep
    skip = os.path.join(prefix, "data", "date_translation_data") + os.sep
    cut = len(os.path.realpath(repo)) + 1
    add = _seen.add

    def on_line(code, line):
        fn = code.co_filename
        if fn.startswith(prefix) and not fn.startswith(skip):
            add((fn[cut:], line))
        return mon.DISABLE

    mon.register_callback(TOOL, mon.events.LINE, on_line)
    mon.set_events(TOOL, mon.events.LINE)
    _on = True
    return True


def collect():
    out = {}
    for fn, line in _seen:
        out.setdefault(fn, []).append(line)
    return {fn: sorted(ls) for fn, ls in out.items()}


def executable_lines(path):
    """Line numbers that carry code according to the compiler (the same notion LINE events use)."""
    with open(path, "rb") as f:
        src = f.read()
    top = compile(src, path, "exec", dont_inherit=True)
    lines, funcs = set(), {}
    stack = [(top, "<module>")]
    while stack:
        co, qual = stack.pop()
        own = set()
        for _, _, ln in co.co_lines():
            if ln is not None and ln > 0:
                own.add(ln)
        for c in co.co_consts:
            if hasattr(c, "co_lines"):
                stack.append((c, (qual + "." if qual != "<module>" else "") + c.co_name))
        # a def/class line belongs to the enclosing code object; the first line of a function's own code is its def line too
        if qual != "<module>":
            own.discard(co.co_firstlineno)
        lines |= own
        funcs[qual] = sorted(own)
    return lines, funcs


def summarise(merged, repo, anchor_files):
    """merged: {relative file: set(lines)} -> {file: [executed, executable]} for the property's anchor .py files"""
    out = {}
    for rel in anchor_files:
        if "*" in rel or not rel.endswith(".py") or not rel.startswith("dateparser/") or "/date_translation_data/" in rel:
            continue
        path = os.path.join(repo, rel)
        if not os.path.exists(path):
            continue
        try:
            exe, _ = executable_lines(path)
        except SyntaxError:
            continue
        hit = set(merged.get(rel, ())) & exe
        out[rel] = [len(hit), len(exe)]
    return out
