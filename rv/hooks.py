"""Out-of-tree instrumentation: function wrappers with evaluation counters and
sys.monitoring PY_START counters for the anchored functions of a property.

Nothing here edits /repo; everything is applied to the imported modules of the tree
under test.  Every wrapper counts its evaluations so a check can tell "held" from
"the monitor was never reached" (inconclusive)."""
import functools
import importlib
import sys
import threading

_lock = threading.Lock()
EVALS = {}  # hook name -> number of evaluations
UNAVAILABLE = {}  # hook name -> why the target could not be found (the tree was refactored): the hook is then skipped,
#                   never an error: taps only confirm/classify, verdicts come from the oracles at the API boundary


def bump(name, n=1):
    with _lock:
        EVALS[name] = EVALS.get(name, 0) + n


def resolve(modname, qualname):
    mod = importlib.import_module(modname)
    obj = mod
    parent = None
    for part in qualname.split("."):
        parent = obj
        obj = getattr(obj, part)
    return mod, parent, obj


def wrap(modname, qualname, before=None, after=None, name=None, rebind=()):
    """Replace modname.qualname by a wrapper.

    before(args, kwargs) -> token ; after(token, args, kwargs, result, exc) -> None.
    `rebind` lists (module, attr) pairs holding `from m import f` copies to re-point.
    Returns the original callable."""
    hook = name or "%s.%s" % (modname, qualname)
    try:
        mod, parent, orig = resolve(modname, qualname)
        if not callable(orig):
            raise TypeError("%s.%s is not callable" % (modname, qualname))
    except Exception as e:  # renamed/moved/removed in the tree under test
        UNAVAILABLE[hook] = "%s: %s" % (type(e).__name__, e)
        return None
    raw = orig
    is_static = is_class = False
    attr = qualname.split(".")[-1]
    if parent is not mod and isinstance(parent, type):
        d = parent.__dict__.get(attr)
        if isinstance(d, staticmethod):
            is_static, raw = True, d.__func__
        elif isinstance(d, classmethod):
            is_class, raw = True, d.__func__

    def safely(cb, *a):
        # a callback that trips over a refactored internal (renamed attribute, changed signature) must never change what
        # the library call does: it is counted and skipped
        try:
            return cb(*a)
        except Exception as e:  # noqa
            bump("hook-error:%s:%s" % (hook, type(e).__name__))
            return None

    @functools.wraps(raw)
    def wrapper(*args, **kwargs):
        bump(hook)
        token = safely(before, args, kwargs) if before else None
        try:
            result = raw(*args, **kwargs)
        except BaseException as e:
            if after:
                safely(after, token, args, kwargs, None, e)
            raise
        if after:
            safely(after, token, args, kwargs, result, None)
        return result

    wrapper.__rv_original__ = raw
    new = wrapper
    if is_static:
        new = staticmethod(wrapper)
    elif is_class:
        new = classmethod(wrapper)
    setattr(parent, attr, new)
    for m, a in rebind:
        mm = importlib.import_module(m)
        if getattr(mm, a, None) is orig:
            setattr(mm, a, wrapper)
    EVALS.setdefault(hook, 0)
    return raw


# ------------------------------------------------------------------ anchors
class AnchorCounter:
    """PY_START counters (PEP 669) on named functions: evidence that the mechanism a
    property is anchored in was actually executed by the workload."""

    def __init__(self, anchors, tool_id=3):
        self.anchors = list(anchors)
        self.tool = tool_id
        self.counts = {}
        self._code = {}
        self.unresolved = []

    def start(self):
        mon = sys.monitoring
        try:
            mon.use_tool_id(self.tool, "rv-anchors")
        except ValueError:
            pass
        for modname, qualname in self.anchors:
            label = "%s.%s" % (modname.split(".")[-1], qualname)
            try:
                _, _, obj = resolve(modname, qualname)
            except Exception:
                self.unresolved.append(label)
                continue
            obj = getattr(obj, "__rv_original__", obj)
            obj = getattr(obj, "__func__", obj)
            obj = getattr(obj, "__wrapped__", obj) if not hasattr(obj, "__code__") else obj
            code = getattr(obj, "__code__", None)
            if code is None:
                self.unresolved.append(label)
                continue
            self._code[code] = label
            self.counts[label] = 0
            mon.set_local_events(self.tool, code, mon.events.PY_START)

        def cb(code, offset):
            lab = self._code.get(code)
            if lab is not None:
                self.counts[lab] += 1

        mon.register_callback(self.tool, mon.events.PY_START, cb)
        return self

    def stop(self):
        mon = sys.monitoring
        for code in self._code:
            try:
                mon.set_local_events(self.tool, code, 0)
            except Exception:
                pass
        mon.register_callback(self.tool, mon.events.PY_START, None)
        try:
            mon.free_tool_id(self.tool)
        except Exception:
            pass
