"""A pool of public-API calls as JSON-able descriptors, their execution at the API
boundary, canonical outcomes, and a fork server that produces fresh-process
reference outcomes (state = right after import, under a chosen PYTHONHASHSEED)."""
import copy
import json
import os
import select
import subprocess
import sys
import time
from datetime import datetime, timezone

from .util import VERIF_DIR, iso, parse_iso, repo_path, safe_tzname

B = datetime(2012, 11, 13, 14, 15, 16)

STRINGS = [
    ("en", "12 May 2015"), ("en", "02/03/2015"), ("en", "not a date at all"), ("fr", "02/03/2015"), ("fr", "12 mai 2015 à 10:45"), ("fr", "il y a 3 jours"),
    ("de", "vor 2 Tagen"), ("de", "3. Januar 2011"), ("es", "hace 2 semanas"), ("ru", "12 мая 2015 г."),
    ("ja", "2015年5月12日"), ("zh", "昨天"), (None, "yesterday"), (None, "12 mai 2015"), (None, "1 hour ago"),
    ("en", "Monday"), ("en", "t 12 May 2015 xyz"), ("fr", "le 3 sept 2015"), ("en", "2015-05-12T10:45:00"),
    ("ar", "١٢ مايو ٢٠١٥"), ("hi", "12 मई 2015"), ("en", "in 2 days"), ("en", "May 2015"),
    (None, "10:45"), ("pt", "há 2 dias"), ("en", "1500000000"), ("fr", "12 février 2015"), ("fr", "12 fevrier 2015"),
    ("es", "3 de sept. de 2014"), ("tr", "12 Mayıs 2015"), ("en", "abc. 12 May 2015"), ("it", "2 giorni fa"),
    ("de", "kein Datum"), ("hu", "2015. május 12."), ("th", "12 พฤษภาคม 2015"),
]
SETTINGS = [
    {}, {"DATE_ORDER": "DMY"}, {"DATE_ORDER": "YMD"}, {"DATE_ORDER": "MDY"}, {"NORMALIZE": False}, {"SKIP_TOKENS": ["xyz"]},
    {"SKIP_TOKENS": []}, {"SKIP_TOKENS": ["le"]}, {"SKIP_TOKENS": ["abc."]}, {"CACHE_SIZE_LIMIT": 1}, {"CACHE_SIZE_LIMIT": 2},
    {"CACHE_SIZE_LIMIT": 0}, {"CACHE_SIZE_LIMIT": 3}, {"CACHE_SIZE_LIMIT": -1}, {"PREFER_LOCALE_DATE_ORDER": False},
    {"DEFAULT_LANGUAGES": ["fr"]}, {"PARSERS": ["absolute-time"]}, {"PARSERS": ["relative-time", "absolute-time"]},
    {"STRICT_PARSING": True}, {"PREFER_DATES_FROM": "future"}, {"PREFER_DATES_FROM": "past"},
    {"TIMEZONE": "UTC", "TO_TIMEZONE": "Asia/Tokyo"}, {"RETURN_AS_TIMEZONE_AWARE": True},
    {"NORMALIZE": False, "SKIP_TOKENS": ["le"]}, {"DATE_ORDER": "DMY", "CACHE_SIZE_LIMIT": 1}, {"BOGUS": 1},
    {"DATE_ORDER": "XYZ"}, {"PREFER_DAY_OF_MONTH": "last"}, {"RETURN_TIME_AS_PERIOD": True},
    # invalid twins of valid variants above: same names, wrongly typed value with the same str()
    {"STRICT_PARSING": "True"}, {"CACHE_SIZE_LIMIT": "2"}, {"RETURN_TIME_AS_PERIOD": "True"},
    # list-valued settings with several elements, written in an order the library would not choose itself (appended last:
    # the indices above are referred to by number)
    {"DEFAULT_LANGUAGES": ["fr", "en"]}, {"DEFAULT_LANGUAGES": ["ru", "de", "en"]},
    {"SKIP_TOKENS": ["xyz", "t", "abc."]}, {"REQUIRE_PARTS": ["year", "day"]},
    {"PARSERS": ["absolute-time", "relative-time", "timestamp"]},
    # abbreviations that are also tz-database names (two readings exist inside the library): as the zone a string is
    # interpreted in, and as the conversion target
    {"TIMEZONE": "CET"}, {"TIMEZONE": "UTC", "TO_TIMEZONE": "CET"}, {"TIMEZONE": "EET", "TO_TIMEZONE": "WET"},
    {"TIMEZONE": "UTC", "TO_TIMEZONE": "EET", "RETURN_AS_TIMEZONE_AWARE": True},
    # settings the validators reject half-way through building the shared Settings object (each validator has its own message
    # path): the failure must leave nothing behind for the calls that follow
    {"PARSERS": ["absolute-time", "bogus-parser"]}, {"REQUIRE_PARTS": ["day", "day"]}, {"REQUIRE_PARTS": ["hour"]},
    {"DEFAULT_LANGUAGES": ["xx"]},
]
NOBASE_SETTINGS = [{"__nobase__": True}, {"__nobase__": True, "PREFER_DATES_FROM": "past"},
                   {"__nobase__": True, "PREFER_DATES_FROM": "future"}, {"__nobase__": True, "DATE_ORDER": "DMY"}]
NOBASE_STRINGS = [("en", "yesterday"), ("en", "2 days ago"), ("en", "1 hour ago"), ("fr", "hier"), ("de", "gestern"),
                  ("ru", "вчера"), ("en", "12 May 2015"), ("en", "now")]
TEXTS = [
    ("en", "I saw him on 12 May 2015 and two days ago."), ("fr", "Nous sommes le 3 mars 2011. Hier il a plu."),
    (None, "Meeting on 02/03/2015 at 10:45"), ("de", "Am 3. Januar 2011 und gestern."),
    ("ru", "Это было 12 мая 2015 г. и вчера"), ("zh", "上個月"), ("en", "Monday, then 2015-01-01. yesterday"),
    ("en", "It was on 12 May 2015 and then yesterday again"), ("fr", "le 12 févr. 2015 puis hier"),
    ("es", "El 3 de marzo de 2011 y ayer"),
]
SEARCH_SETTINGS = SETTINGS[:12] + [{"PREFER_DATES_FROM": "past"}, {"STRICT_PARSING": True}]
BAD_LANG = [("xx", "12 May 2015"), ("zz", "yesterday")]
PLAIN_STRINGS = ["12 mai 2015", "2015-05-12T10:30:45", "2015-05-12", "02/03/2015", "12 мая 2015 г.", "3. Januar 2011", "12 May 2015",
                 "2015年5月12日", "10/11/2015 10:45", "12 de mayo de 2015", "May 12, 2015", "2015-03-02 00:00:01.5"]
# strings that are blank / only skipped words after translation (the parsers are entered with nothing to parse) and strings that
# make a sub-parser fail half-way; each is followed, somewhere later in a history, by the numeric-date "victims" below
DISTURBERS = [("fr", "le"), ("es", "de"), ("en", "on"), ("sv", "den"), ("ru", "в"), ("nl", "om"), ("fr", "le le"), ("fr", "à"),
              ("de", "um"), ("pl", "o"), ("en", ""), ("en", "   "), ("fr", "32/13/2015"), ("sv", "99/99/9999 25:61"),
              ("ja", "13月32日"), ("fr", "le 31 février 2015")]
VICTIMS = [("tl", "01/02/2015"), ("tl", "2015/01/02 10:45"), ("en", "01/02/2015"), ("fr", "01/02/2015"), ("sv", "01/02/2015"),
           ("ja", "01/02/2015"), ("de", "01.02.2015")]
# zone-bearing strings whose table entries overlap (an abbreviation that is a prefix of an offset spelling, a bare offset
# that is a suffix of a prefixed one): the zone found in one call must not depend on the zone found in the call before
TZ_STRINGS = ["12/05/2015 10:30 UTC", "12/05/2015 10:30 UTC+5", "12/05/2015 10:30 GMT", "12/05/2015 10:30 GMT-0330",
              "12/05/2015 10:30 +0530", "12/05/2015 10:30 UTC+0530", "12/05/2015 10:30 GMT+05:30", "12/05/2015 10:30 EST",
              "12/05/2015 10:30 GMT-0500 (EST)", "12/05/2015 10:30 -05:00", "12/05/2015 10:30 utc", "12/05/2015 10:30 UTC-5",
              "12/05/2015 10:30 CEST", "12/05/2015 10:30 GMT+0200 (CEST)", "12/05/2015 10:30 Z", "12/05/2015 10:30"]


_OWN_REL = {}


def own_relative_phrases(per_locale):
    """[(locale, language, phrase)]: phrases a regional locale lists itself (not inherited), numbers instantiated."""
    if per_locale in _OWN_REL:
        return _OWN_REL[per_locale]
    from .oracles import vocab

    out = []
    for lang, loc in vocab.all_locales():
        if loc == lang:
            continue
        base = vocab.language_data(lang)
        spec = (base.get("locale_specific", {}) or {}).get(loc, {}) or {}
        inherited = set()
        for key in ("relative-type-regex", "relative-type"):
            for canon, ws in (base.get(key) or {}).items():
                inherited.update(w for w in ws if isinstance(w, str))
        got = []
        for canon, pats in (spec.get("relative-type-regex") or {}).items():
            for ptn in pats:
                if ptn in inherited:
                    continue
                if r"(\d+[.,]?\d*)" in ptn and "\\" not in ptn.replace(r"(\d+[.,]?\d*)", ""):
                    got.append(ptn.replace(r"(\d+[.,]?\d*)", "2"))
        for canon, words in (spec.get("relative-type") or {}).items():
            got += [w for w in words if isinstance(w, str) and w not in inherited]
        # spread over the list rather than its head
        step = max(1, len(got) // per_locale)
        for phrase in got[::step][:per_locale]:
            out.append((loc, lang, phrase))
    _OWN_REL[per_locale] = out
    return out


def build_pool(tier):
    """Deterministic list of call descriptors (dicts)."""
    P = []
    strings = STRINGS if tier == "thorough" else STRINGS[:22]
    settings = list(range(len(SETTINGS)))
    for l, s in strings:
        for si in settings:
            for api in ("parse", "ddp"):
                if api == "ddp" and tier != "thorough" and (si % 2 == 1 and si < 25):
                    continue
                P.append({"api": api, "s": s, "lang": l, "si": si, "nobase": False})
    for l, s in NOBASE_STRINGS:
        for ni in range(len(NOBASE_SETTINGS)):
            for api in ("parse", "ddp"):
                P.append({"api": api, "s": s, "lang": l, "si": ni, "nobase": True})
    texts = TEXTS if tier == "thorough" else TEXTS[:8]
    for l, t in texts:
        for si in range(len(SEARCH_SETTINGS)):
            P.append({"api": "search", "s": t, "lang": l, "si": si, "nobase": False, "adl": si % 3 == 0})
        P.append({"api": "search", "s": t, "lang": l, "si": 0, "nobase": True, "adl": False})
        P.append({"api": "search", "s": t, "lang": l, "si": 1, "nobase": True, "adl": False})
    for langs in (["fr", "en"], ["de", "en"], ["es", "en", "fr"]):
        for s in ("02/03/2015", "12 mai 2015", "yesterday"):
            for ugo in (False, True):
                for si in (0, 1, 14):
                    P.append({"api": "ddp", "s": s, "lang": None, "langs": langs, "ugo": ugo, "si": si, "nobase": False})
    for loc in ("en-SG", "en-CA", "es-MX", "fr-HT", "fr-BE", "de-AT", "en-GB"):
        for s in ("3 mth ago", "last mth", "la semana próxima", "il y a 3 hr", "02/03/2015", "in 2 mth"):
            P.append({"api": "ddp", "s": s, "lang": None, "locales": [loc], "si": 0, "nobase": False})
    for lang in ("en", "es", "fr", "de"):
        for s in ("3 mth ago", "last mth", "la semana próxima", "il y a 3 hr", "in 2 mth"):
            P.append({"api": "parse", "s": s, "lang": lang, "si": 0, "nobase": False})
            P.append({"api": "parse", "s": s, "lang": lang, "si": 4, "nobase": False})
    # custom formats and language+region selections
    for s, fm in (("12.05.2015", ["%d.%m.%Y"]), ("05/12/2015", ["%m/%d/%Y"]), ("05/12/2015", ["%d/%m/%Y"]), ("May 2015", ["%B %Y"]),
                  ("2015", ["%Y"]), ("12 mai 2015", ["%d %B %Y"]), ("10:45", ["%H:%M"]), ("2015 132", ["%Y %j"])):
        for si in (0, 1, 27, 18):
            for lang in ("en", "fr"):
                P.append({"api": "ddp", "s": s, "lang": lang, "si": si, "nobase": False, "formats": fm})
                P.append({"api": "parse", "s": s, "lang": lang, "si": si, "nobase": False, "formats": fm})
    for langs, region in ((["en"], "GB"), (["en"], "US"), (["fr", "en"], "CA"), (["fr", "en"], "BE"), (["es"], "MX"), (["pt"], "BR")):
        for s in ("02/03/2015", "12 mai 2015", "3 mth ago", "yesterday"):
            P.append({"api": "ddp", "s": s, "lang": None, "langs": langs, "region": region, "si": 0, "nobase": False})
            P.append({"api": "ddp", "s": s, "lang": None, "langs": langs, "region": region, "si": 14, "nobase": False})
    for l, s in DISTURBERS + VICTIMS:
        for si in (0, 1, 14, 4):
            P.append({"api": "parse", "s": s, "lang": l, "si": si, "nobase": False, "grp": "order"})
            if si in (0, 14):
                P.append({"api": "ddp", "s": s, "lang": l, "si": si, "nobase": False, "grp": "order"})
    for s in TZ_STRINGS:
        for l in ("en", None):
            P.append({"api": "parse", "s": s, "lang": l, "si": 0, "nobase": False, "grp": "tz"})
        P.append({"api": "ddp", "s": s, "lang": "en", "si": 22, "nobase": False, "grp": "tz"})
    # the everyday call parse(text) with no other argument (the library's shared default parser), over strings of several languages
    for s in PLAIN_STRINGS:
        P.append({"api": "parse", "s": s, "lang": None, "si": 0, "nobase": True, "grp": "plain"})
        P.append({"api": "search", "s": s, "lang": None, "si": 0, "nobase": True, "adl": False, "grp": "plain"})
    # regional locales that add relative phrases/patterns of their own (read from the shipped data files): the same phrase
    # through the locale and through its language, under equal settings, in whatever order a history puts them
    for loc, lang, phrase in own_relative_phrases(2 if tier == "quick" else 4):
        for si in (0, 4):
            P.append({"api": "ddp", "s": phrase, "lang": None, "locales": [loc], "si": si, "nobase": False, "grp": "relloc"})
            P.append({"api": "parse", "s": phrase, "lang": lang, "si": si, "nobase": False, "grp": "relloc"})
    # search_dates with several languages: the same set in different orders (the language of a text is chosen among them), on
    # texts where the order decides (dates of two of the languages, digits only, a tie)
    for t in ("12 janvier 2020 ; 14 Januar 2021", "02/03/2015, 1.2.2003", "3 mars 2011 ; 3. März 2011", "12 May 2015 ; 12 mai 2015",
              "le 5 juin 2019"):
        for langs in (["fr", "de"], ["de", "fr"], ["en", "fr", "de"], ["de", "en", "fr"], ["fr", "en"], ["en", "fr"]):
            P.append({"api": "search", "s": t, "lang": None, "langs": langs, "si": 0, "nobase": False, "adl": True, "grp": "searchsel"})
    for l, s in BAD_LANG:
        P.append({"api": "parse", "s": s, "lang": l, "si": 0, "nobase": False})
        P.append({"api": "ddp", "s": s, "lang": l, "si": 1, "nobase": False})
    P.append({"api": "jalali", "s": "13 مرداد 1395", "lang": None, "si": 0, "nobase": False})
    P.append({"api": "jalali", "s": "1395/05/13 10:30", "lang": None, "si": 0, "nobase": False})
    P.append({"api": "hijri", "s": "1437/05/13", "lang": None, "si": 0, "nobase": False})
    P.append({"api": "hijri", "s": "17-01-1437 08:30 مساءً", "lang": None, "si": 0, "nobase": False})
    # the same numbers read by both calendars
    for s in ("1400/01/15", "1437/05/13", "1395/05/13 10:30"):
        P.append({"api": "jalali", "s": s, "lang": None, "si": 0, "nobase": False, "grp": "cal"})
        P.append({"api": "hijri", "s": s, "lang": None, "si": 0, "nobase": False, "grp": "cal"})
    for i, c in enumerate(P):
        c["id"] = i
    return P


def settings_of(call):
    if call["api"] in ("jalali", "hijri"):
        return None
    if "st" in call:   # explicit settings (C20's pool)
        st = copy.deepcopy(call["st"])
        if not call.get("nobase") and "BOGUS" not in st:
            st["RELATIVE_BASE"] = B
        return st
    if call["nobase"]:
        table = NOBASE_SETTINGS
        st = copy.deepcopy(table[call["si"]])
        st.pop("__nobase__", None)
        return st
    table = SEARCH_SETTINGS if call["api"] == "search" else SETTINGS
    st = copy.deepcopy(table[call["si"]])
    if "BOGUS" not in st:
        st["RELATIVE_BASE"] = B
    return st


def inst_key(call):
    return "%s|%s|%s|%s|%s|%s|%s" % (call.get("region"), call.get("locales"), call.get("langs"), call.get("ugo"), call["lang"], call.get("si", repr(sorted((call.get("st") or {}).items()))), call["nobase"])


# ------------------------------------------------------------------ outcomes
def dt_out(d, now=None):
    if d is None:
        return None
    if not isinstance(d, datetime):
        return "<%s>" % type(d).__name__
    if now is not None:
        naive = d.replace(tzinfo=None) if d.tzinfo is None else d.astimezone(timezone.utc).replace(tzinfo=None)
        return {"rel_s": round((naive - now).total_seconds(), 1), "aware": d.tzinfo is not None,
                "abs": iso(d) + ("" if d.tzinfo is None else "|" + str(safe_tzname(d)))}
    return iso(d) + ("" if d.tzinfo is None else "|" + str(safe_tzname(d)))


def execute(call, insts=None, guard=None):
    """Run one call at the API boundary; return the canonical outcome (JSON-able)."""
    api, s, lang = call["api"], call["s"], call["lang"]
    st = settings_of(call)
    langs = list(call["langs"]) if call.get("langs") else ([lang] if lang else None)
    extra = {}
    if call.get("ugo"):
        extra["use_given_order"] = True
    if call.get("locales"):
        extra["locales"] = list(call["locales"])
    if call.get("region"):
        extra["region"] = call["region"]
    fm = list(call["formats"]) if call.get("formats") else None
    st0, langs0 = copy.deepcopy(st), copy.deepcopy(langs)
    fm0, extra0 = copy.deepcopy(fm), copy.deepcopy(extra)
    now = datetime.now(timezone.utc).replace(tzinfo=None) if call["nobase"] else None
    if call.get("as_instance") and st is not None:
        # the settings argument may also be a Settings instance (documented alternative to a dict)
        from dateparser.conf import settings as default_settings

        st = st0 = default_settings.replace(**st) if st else default_settings
    try:
        if api == "parse":
            import dateparser

            r = dateparser.parse(s, date_formats=fm, languages=langs, settings=st)
            out = ["ok", dt_out(r, now)]
        elif api in ("ddp", "inst"):
            from dateparser.date import DateDataParser

            if api == "inst":
                key = inst_key(call)
                if key not in insts:
                    insts[key] = DateDataParser(languages=langs, settings=st, **extra)
                p = insts[key]
            else:
                p = DateDataParser(languages=langs, settings=st, **extra)
            d = p.get_date_data(s, fm)
            out = ["ok", [dt_out(d["date_obj"], now), d["period"], d["locale"]]]
        elif api == "search":
            from dateparser.search import search_dates

            r = search_dates(s, languages=langs, settings=st, add_detected_language=bool(call.get("adl")))
            out = ["ok", None if r is None else [[t[0], dt_out(t[1], now)] + list(t[2:]) for t in r]]
        elif api == "jalali":
            from dateparser.calendars.jalali import JalaliCalendar

            r = JalaliCalendar(s).get_date()
            out = ["ok", None if r is None else [dt_out(r["date_obj"]), r["period"]]]
        else:
            from dateparser.calendars.hijri import HijriCalendar

            r = HijriCalendar(s).get_date()
            out = ["ok", None if r is None else [dt_out(r["date_obj"]), r["period"]]]
    except Exception as e:  # noqa: the boundary records whatever escapes
        out = ["exc", type(e).__name__]
    if guard is not None and (st != st0 or langs != langs0 or type(st) is not type(st0) or fm != fm0 or extra != extra0):
        guard.append({"call": call, "settings_before": repr(st0), "settings_after": repr(st),
                      "languages_before": langs0, "languages_after": langs})
    return out


def same_outcome(a, b, tol=120.0):
    """Equality of canonical outcomes, with a tolerance on now-relative datetimes."""
    if isinstance(a, dict) and isinstance(b, dict) and "rel_s" in a and "rel_s" in b:
        # a now-relative result agrees up to the clock; an absolute one agrees exactly
        return a["aware"] == b["aware"] and (a.get("abs") == b.get("abs") or abs(a["rel_s"] - b["rel_s"]) <= tol)
    if isinstance(a, list) and isinstance(b, list):
        return len(a) == len(b) and all(same_outcome(x, y, tol) for x, y in zip(a, b))
    return a == b


def ref_call(call):
    """The call whose fresh-process outcome is the reference for `call`."""
    if call["api"] == "inst":
        c = dict(call)
        c["api"] = "ddp"
        return c
    return call


# ------------------------------------------------------------------ fork server
SERVER_SRC = r"""
import json, os, sys, select
sys.path.insert(0, %(verif)r); sys.path.insert(0, %(repo)r)
import dateparser, dateparser.search
from dateparser.calendars.jalali import JalaliCalendar
from dateparser.calendars.hijri import HijriCalendar
from rv import calls
from rv.util import assert_repo_imported
assert_repo_imported()
out = sys.stdout
out.write("READY\n"); out.flush()
for line in sys.stdin:
    req = json.loads(line)
    r, w = os.pipe()
    pid = os.fork()
    if pid == 0:
        os.close(r)
        try:
            insts = {}
            res = [calls.execute(c, insts) for c in req["calls"]]
            data = json.dumps(res).encode()
        except BaseException as e:
            data = json.dumps({"child_error": repr(e)}).encode()
        os.write(w, data)
        os._exit(0)
    os.close(w)
    buf = b""
    deadline = req.get("timeout", 120)
    import time
    t0 = time.time()
    while True:
        ready, _, _ = select.select([r], [], [], 1.0)
        if ready:
            chunk = os.read(r, 1 << 16)
            if not chunk:
                break
            buf += chunk
        elif time.time() - t0 > deadline:
            try: os.kill(pid, 9)
            except Exception: pass
            buf = json.dumps({"child_error": "timeout"}).encode()
            break
    os.close(r)
    try: os.waitpid(pid, 0)
    except Exception: pass
    out.write(buf.decode() + "\n"); out.flush()
"""


class ForkServer:
    def __init__(self, hashseed=0):
        env = dict(os.environ)
        env["PYTHONHASHSEED"] = str(hashseed)
        env["PYTHONDONTWRITEBYTECODE"] = "1"
        env["PYTHONPATH"] = os.pathsep.join([VERIF_DIR, repo_path()])
        src = SERVER_SRC % {"verif": VERIF_DIR, "repo": repo_path()}
        self.p = subprocess.Popen([sys.executable, "-c", src], stdin=subprocess.PIPE, stdout=subprocess.PIPE,
                                  stderr=subprocess.PIPE, env=env, text=True, cwd=VERIF_DIR)
        line = self.p.stdout.readline()
        if line.strip() != "READY":
            err = self.p.stderr.read()[-1500:]
            raise RuntimeError("fork server failed to start: %s %s" % (line, err))

    def run(self, calls_list, timeout=120):
        """Execute the calls sequentially in ONE pristine forked child; list of outcomes."""
        self.p.stdin.write(json.dumps({"calls": calls_list, "timeout": timeout}) + "\n")
        self.p.stdin.flush()
        line = self.p.stdout.readline()
        if not line:
            raise RuntimeError("fork server died: %s" % self.p.stderr.read()[-1500:])
        res = json.loads(line)
        if isinstance(res, dict):
            raise RuntimeError("fork child failed: %s" % res.get("child_error"))
        return res

    def close(self):
        try:
            self.p.stdin.close()
            self.p.wait(timeout=10)
        except Exception:
            self.p.kill()


def compute_references(pool, hashseeds=(0, 1, 4242), parallel=15):
    """Fresh-process outcome of every pool call under each hash seed.

    Returns (refs, disagreements): refs[i] = outcome under the first seed; disagreements =
    list of (call, {seed: outcome}) where seeds disagree."""
    from concurrent.futures import ThreadPoolExecutor

    per_seed = max(1, parallel // len(hashseeds))
    jobs = []
    for hs in hashseeds:
        for part in range(per_seed):
            jobs.append((hs, part))

    def work(job):
        hs, part = job
        srv = ForkServer(hs)
        res = {}
        try:
            for c in pool[part::per_seed]:
                res[c["id"]] = srv.run([c])[0]
        finally:
            srv.close()
        return hs, res

    by_seed = {hs: {} for hs in hashseeds}
    with ThreadPoolExecutor(len(jobs)) as ex:
        for hs, res in ex.map(work, jobs):
            by_seed[hs].update(res)
    refs, dis = {}, []
    for c in pool:
        outs = {hs: by_seed[hs][c["id"]] for hs in hashseeds}
        refs[c["id"]] = outs[hashseeds[0]]
        first = outs[hashseeds[0]]
        if any(not same_outcome(first, o) for o in outs.values()):
            dis.append((c, outs))
    return refs, dis
