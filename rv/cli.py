"""python -m rv.cli <Cxx> [--tier quick|thorough] [--seed N] [--replay file]"""
import argparse
import os
import sys


def main():
    ap = argparse.ArgumentParser()
    ap.add_argument("prop")
    ap.add_argument("--tier", default=None)
    ap.add_argument("--seed", type=int, default=None)
    ap.add_argument("--replay", default=None)
    a = ap.parse_args()
    os.environ.setdefault("PYTHONHASHSEED", "0")
    from rv import harness

    if a.replay:
        sys.exit(harness.replay(a.prop.upper(), a.replay))
    sys.exit(harness.run_property(a.prop.upper(), a.tier, a.seed))


if __name__ == "__main__":
    main()
