from rv.harness import worker_main

if __name__ == "__main__":
    worker_main()
