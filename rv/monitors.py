"""Monitors shared by several properties: boundary API recorder, parser-path tap,
translate tap, shared-state conservation monitor, argument-immutability monitor."""
import copy
import threading
from datetime import datetime

from . import hooks
from .util import outcome_of_datetime

_tls = threading.local()


# ------------------------------------------------------------------ API boundary
def call_parse(s, **kw):
    """dateparser.parse at the boundary -> ('ok', datetime|None) or ('exc', type, msg)."""
    import dateparser

    try:
        return ("ok", dateparser.parse(s, **kw))
    except Exception as e:  # noqa: the boundary records everything that escapes
        return ("exc", type(e), str(e)[:200])


def call_gdd(parser, s, date_formats=None):
    try:
        return ("ok", parser.get_date_data(s, date_formats))
    except Exception as e:
        return ("exc", type(e), str(e)[:200])


def dd_outcome(dd):
    """Canonical outcome of a DateData."""
    if dd is None:
        return None
    return (outcome_of_datetime(dd["date_obj"]), dd["period"], dd["locale"])


# ------------------------------------------------------------------ parser path
PARSER_METHODS = {
    "_try_timestamp": "timestamp",
    "_try_negative_timestamp": "negative-timestamp",
    "_try_freshness_parser": "relative-time",
    "_try_given_formats": "custom-formats",
    "_try_absolute_parser": "absolute-time",
    "_try_nospaces_parser": "no-spaces-time",
}


class PathTap:
    """Records which sub-parser produced the accepted DateData of the last
    get_date_data call in this thread ('raw-format' = the strptime shortcut taken on
    the raw string before any translation)."""

    installed = False
    available = True   # False when the tree no longer has the tapped methods: accepted() then answers what the caller expects

    @classmethod
    def install(cls):
        if cls.installed:
            return
        cls.installed = True

        def mk(meth, label):
            def before(args, kwargs):
                return None

            def after(token, args, kwargs, result, exc):
                inst = args[0]
                valid = exc is None and inst._is_valid_date_data(result)
                ev = getattr(_tls, "path", None)
                if ev is not None:
                    ev.append((label, bool(valid)))

            if hooks.wrap("dateparser.date", "_DateLocaleParser.%s" % meth, before, after,
                          name="path:%s" % label) is None:
                cls.available = False

        for meth, label in PARSER_METHODS.items():
            mk(meth, label)

        def pwf_before(args, kwargs):
            depth = getattr(_tls, "pwf_depth", 0)
            _tls.pwf_depth = depth + 1
            return depth

        def pwf_after(token, args, kwargs, result, exc):
            _tls.pwf_depth = token
            ev = getattr(_tls, "path", None)
            if ev is not None and exc is None and result is not None:
                try:
                    ok = bool(result["date_obj"])
                except Exception:
                    ok = False
                ev.append(("pwf", ok))

        if hooks.wrap("dateparser.date", "parse_with_formats", pwf_before, pwf_after,
                      name="path:parse_with_formats") is None:
            cls.available = False

    @staticmethod
    def reset():
        _tls.path = []

    @staticmethod
    def events():
        return list(getattr(_tls, "path", []) or [])

    @classmethod
    def accepted(cls, want=None):
        """Name of the parser whose result get_date_data returned, or None.  `want` = the path(s) the caller expects:
        answered as is when the tap could not be installed (path confirmation is evidence, not a verdict)."""
        if not cls.available:
            hooks.bump("path-tap-unavailable(answering the expected path)")
            if want is None:
                return None
            return want if isinstance(want, str) else want[0]
        ev = getattr(_tls, "path", None) or []
        if not ev:
            return None
        # get_date_data calls parse_with_formats on the raw string first
        if ev[0] == ("pwf", True):
            return "raw-format"
        for label, valid in ev:
            if label != "pwf" and valid:
                return label
        return None


# ------------------------------------------------------------------ translate tap
class TranslateTap:
    installed = False
    available = True

    @classmethod
    def install(cls):
        if cls.installed:
            return
        cls.installed = True

        def after(token, args, kwargs, result, exc):
            ev = getattr(_tls, "tr", None)
            if ev is not None and exc is None:
                loc = args[0]
                kf = kwargs.get("keep_formatting", args[2] if len(args) > 2 else False)
                ev.append((loc.shortname, args[1] if len(args) > 1 else kwargs.get("date_string"),
                           bool(kf), result))

        cls.available = hooks.wrap("dateparser.languages.locale", "Locale.translate", None, after,
                                   name="tap:Locale.translate") is not None

    @staticmethod
    def reset():
        _tls.tr = []

    @staticmethod
    def events():
        return list(getattr(_tls, "tr", []) or [])


# ------------------------------------------------------------------ shared state
SETTING_NAMES = None


def setting_names():
    global SETTING_NAMES
    if SETTING_NAMES is None:
        from dateparser_data.settings import settings as default

        SETTING_NAMES = sorted(default.keys())
    return SETTING_NAMES


def registry():
    from dateparser.conf import Settings

    return getattr(Settings, "__registry_dict", {})


def snapshot_settings(inst):
    out = {}
    for n in setting_names():
        v = getattr(inst, n, "<missing>")
        try:
            out[n] = copy.deepcopy(v)
        except Exception:
            out[n] = repr(v)
    return out


class ConservationMonitor:
    """At quiescent points (no monitored call in flight) every registered Settings
    instance must still carry the values it was registered with: the registry key is
    a hash of those values, so a change means one key now denotes other settings."""

    def __init__(self):
        self.first_seen = {}  # registry key -> snapshot at first sight
        self.drift = []       # (key, attr, was, now, note)
        self.checks = 0

    def check(self, note=None):
        from dateparser.conf import settings as default_settings
        from dateparser_data.settings import settings as pyfile

        self.checks += 1
        new = []
        for key, inst in list(registry().items()):
            snap = self.first_seen.get(key)
            if snap is None:
                self.first_seen[key] = snapshot_settings(inst)
                continue
            for n in setting_names():
                now = getattr(inst, n, "<missing>")
                if not _same(snap[n], now):
                    ev = (key, n, snap[n], now, note)
                    new.append(ev)
                    # re-baseline so the same drift is reported once
                    try:
                        snap[n] = copy.deepcopy(now)
                    except Exception:
                        snap[n] = repr(now)
        for n in setting_names():
            if not _same(getattr(default_settings, n, "<missing>"), pyfile[n]):
                new.append(("default", n, pyfile[n], getattr(default_settings, n, None), note))
        self.drift.extend(new)
        return new


def _same(a, b):
    try:
        if type(a) is not type(b):
            return False
        if isinstance(a, datetime):
            # tzinfo objects need not define equality (a deep copy of one is a different object)
            if (a.tzinfo is None) != (b.tzinfo is None):
                return False
            if a.tzinfo is None:
                return a == b
            return a == b and a.utcoffset() == b.utcoffset() and a.tzname() == b.tzname()
        return a == b
    except Exception:
        return False


class ArgGuard:
    """Deep-copies caller-owned containers before a call and compares after."""

    def __init__(self, **objs):
        self.objs = objs
        self.before = {k: copy.deepcopy(v) for k, v in objs.items()}

    def changed(self):
        out = []
        for k, v in self.objs.items():
            if v != self.before[k] or type(v) is not type(self.before[k]):
                out.append((k, self.before[k], v))
        return out
