"""Small shared helpers: repo location, JSON encoding of datetimes/settings, outcomes."""
import hashlib
import json
import os
import sys
from datetime import date, datetime, time, timedelta, timezone, tzinfo

VERIF_DIR = os.path.dirname(os.path.dirname(os.path.abspath(__file__)))


def repo_path():
    return os.path.abspath(os.environ.get("VERIF_REPO", "/repo"))


def setup_repo_path():
    """Make `import dateparser` resolve to the tree under test (first on sys.path)."""
    rp = repo_path()
    if sys.path[0] != rp:
        sys.path.insert(0, rp)
    return rp


def assert_repo_imported():
    import dateparser

    rp = repo_path()
    f = os.path.abspath(dateparser.__file__)
    if not f.startswith(rp + os.sep):
        raise RuntimeError("dateparser imported from %s, expected under %s" % (f, rp))


# ---------------------------------------------------------------- datetimes
def dt_to_json(d):
    if d is None:
        return None
    off = d.utcoffset()
    return {
        "dt": [d.year, d.month, d.day, d.hour, d.minute, d.second, d.microsecond],
        "off": None if off is None else off.total_seconds(),
        "tzname": None if d.tzinfo is None else safe_tzname(d),
    }


def safe_tzname(d):
    try:
        return d.tzname()
    except Exception as e:  # pragma: no cover
        return "<%s>" % type(e).__name__


def dt_from_json(j):
    if j is None:
        return None
    d = datetime(*j["dt"])
    if j.get("off") is not None:
        d = d.replace(tzinfo=timezone(timedelta(seconds=j["off"]), j.get("tzname")))
    return d


def iso(d):
    """Lossless, padded rendering (strftime drops zero padding of years < 1000)."""
    if d is None:
        return None
    s = "%04d-%02d-%02dT%02d:%02d:%02d.%06d" % (
        d.year, d.month, d.day, d.hour, d.minute, d.second, d.microsecond)
    off = d.utcoffset() if d.tzinfo is not None else None
    if off is not None:
        secs = int(off.total_seconds())
        sign = "+" if secs >= 0 else "-"
        secs = abs(secs)
        s += "%s%02d:%02d:%02d" % (sign, secs // 3600, secs % 3600 // 60, secs % 60)
    return s


def jsonable(x):
    """Best-effort conversion of a case/observation to JSON-serialisable data."""
    if x is None or isinstance(x, (bool, int, float, str)):
        return x
    if isinstance(x, datetime):
        return {"$dt": iso(x), "tzname": safe_tzname(x) if x.tzinfo else None}
    if isinstance(x, (date, time)):
        return {"$%s" % type(x).__name__: x.isoformat()}
    if isinstance(x, timedelta):
        return {"$td": x.total_seconds()}
    if isinstance(x, dict):
        return {str(k): jsonable(v) for k, v in x.items()}
    if isinstance(x, (list, tuple, set, frozenset)):
        return [jsonable(v) for v in x]
    if isinstance(x, BaseException):
        return {"$exc": type(x).__name__, "msg": str(x)[:300]}
    return {"$repr": repr(x)[:300]}


def unjson_settings(j):
    """Inverse of jsonable for settings dicts (only datetimes need rebuilding)."""
    if j is None:
        return None
    out = {}
    for k, v in j.items():
        if isinstance(v, dict) and "$dt" in v:
            out[k] = parse_iso(v["$dt"])
        else:
            out[k] = v
    return out


def parse_iso(s):
    base, rest = s[:26], s[26:]
    d = datetime(int(base[0:4]), int(base[5:7]), int(base[8:10]), int(base[11:13]),
                 int(base[14:16]), int(base[17:19]), int(base[20:26]))
    if rest:
        sign = 1 if rest[0] == "+" else -1
        hh, mm, ss = int(rest[1:3]), int(rest[4:6]), int(rest[7:9])
        d = d.replace(tzinfo=timezone(sign * timedelta(hours=hh, minutes=mm, seconds=ss)))
    return d


def outcome_of_datetime(d):
    """Canonical, comparable description of a result datetime (or None)."""
    if d is None:
        return None
    if not isinstance(d, datetime):
        return "<non-datetime %s>" % type(d).__name__
    return iso(d) + ("" if d.tzinfo is None else "|" + str(safe_tzname(d)))


def khash(*parts):
    """63-bit stable hash of a case tuple (for distinct counting across workers)."""
    h = hashlib.blake2b(repr(parts).encode("utf-8", "surrogatepass"), digest_size=8).digest()
    return int.from_bytes(h, "big") >> 1


def dumps(x):
    return json.dumps(jsonable(x), ensure_ascii=False, sort_keys=True)
