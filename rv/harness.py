"""Check driver: shards -> worker sub-processes -> merge -> verdict/evidence/replay.

Verdicts are three-valued: held (exit 0), violated (exit 1, VIOLATION line),
inconclusive (exit 2, INCONCLUSIVE line).  Known findings (known_findings.json,
never written at run time) turn a matched violation into a KNOWN-FINDING line."""
import array
import importlib
import json
import os
import subprocess
import sys
import tempfile
import time
from collections import Counter

from .util import VERIF_DIR, dumps, jsonable, khash, repo_path

MAX_DETAILED = 40  # violations kept with full detail per shard


class Ctx:
    """Per-shard collector used by property modules inside a worker."""

    def __init__(self, prop, tier, seed, shard, nshards):
        self.prop, self.tier, self.seed = prop, tier, seed
        self.shard, self.nshards = shard, nshards
        self.evaluations = 0
        self.keys = set()
        self.counters = Counter()
        self.violations = []
        self.n_violations = 0
        self.samples = []
        self.notes = []
        self.inconclusive = []
        # re-ask monitor: a reservoir sample of the shard's own cases is executed a second time at the end of the shard,
        # in shuffled order, i.e. after a different history (order-dependent state such as a "last match" or a memo keyed on
        # too little shows as a value-oracle failure in the second pass)
        self._mem, self._mem_seen, self._in_reask = [], 0, False
        import random as _random
        self._mem_rnd = _random.Random(khash(int(seed), prop, int(shard), "reask"))

    # one explored case
    def ran(self, n=1):
        self.evaluations += n

    def nontrivial(self, *key_parts):
        self.keys.add(khash(*key_parts))

    def count(self, name, n=1):
        self.counters[name] += n

    def remember(self, fn, *args, cap=None):
        if self._in_reask:
            return
        cap = cap or (600 if self.tier == "quick" else 4000)
        self._mem_seen += 1
        if len(self._mem) < cap:
            self._mem.append((fn, args))
        else:
            j = self._mem_rnd.randrange(self._mem_seen)
            if j < cap:
                self._mem[j] = (fn, args)

    def reask(self):
        if self._in_reask or not self._mem:
            return
        self._in_reask = True
        try:
            mem = list(self._mem)
            self._mem_rnd.shuffle(mem)
            for fn, args in mem:
                fn(self, *args)
                self.counters["reasked_in_shuffled_order"] += 1
        finally:
            self._in_reask = False

    def sample(self, s, limit=4):
        if len(self.samples) < limit:
            self.samples.append(jsonable(s))

    def violation(self, case, observed, expected, label, features=None, check=None):
        self.n_violations += 1
        self.counters["violation:%s" % label] += 1
        if len(self.violations) < MAX_DETAILED or not self._seen_label(label, features):
            self.violations.append({
                "property": self.prop, "check": check or self.prop, "seed": self.seed,
                "tier": self.tier, "shard": self.shard,
                "case": jsonable(case), "observed": jsonable(observed),
                "expected": jsonable(expected), "label": label,
                "features": jsonable(features or {}),
            })

    def _seen_label(self, label, features):
        f = jsonable(features or {})
        return any(v["label"] == label and v["features"] == f for v in self.violations)

    def result(self):
        return {
            "evaluations": self.evaluations, "counters": dict(self.counters),
            "violations": self.violations, "n_violations": self.n_violations,
            "samples": self.samples, "notes": self.notes,
            "inconclusive": self.inconclusive,
        }


# ------------------------------------------------------------------ worker side
def worker_main():
    job = json.loads(sys.stdin.read())
    os.environ.setdefault("VERIF_REPO", job["repo"])
    from . import linecov

    linecov.start(job["repo"])      # before the library is imported, so that module-level lines count too
    from .util import setup_repo_path

    setup_repo_path()
    from .util import assert_repo_imported

    mod = importlib.import_module("rv.props.%s" % job["prop"].lower())
    if not getattr(mod, "IMPORTS_LATE", False):
        assert_repo_imported()   # the tree under test, not some other installed copy
    ctx = Ctx(job["prop"], job["tier"], job["seed"], job["shard"], job["nshards"])
    t0 = time.time()
    mod.run_shard(ctx, job["desc"])
    res = ctx.result()
    res["wall_s"] = time.time() - t0
    with open(job["out"] + ".keys", "wb") as f:
        array.array("Q", sorted(ctx.keys)).tofile(f)
    with open(job["out"] + ".cov", "w") as f:
        json.dump(linecov.collect(), f)
    with open(job["out"], "w") as f:
        json.dump(res, f, ensure_ascii=False)


# ------------------------------------------------------------------ parent side
def worker_env(extra=None):
    env = dict(os.environ)
    env["PYTHONPATH"] = os.pathsep.join([VERIF_DIR, repo_path()])
    env["PYTHONDONTWRITEBYTECODE"] = "1"
    env.setdefault("PYTHONHASHSEED", "0")
    env["VERIF_REPO"] = repo_path()
    if extra:
        env.update(extra)
    return env


LINES = {}      # library lines executed by the workers of this run (observation for the evidence file, see rv/linecov.py)


def run_shards(prop, tier, seed, descs, timeout_s, max_workers=None, env_for=None, only=None):
    """Run every shard (or the shards whose indices are in `only`) in a fresh interpreter; return (results, keys, inconclusive)."""
    max_workers = max_workers or min(16, os.cpu_count() or 4)
    tmpdir = tempfile.mkdtemp(prefix="rv-%s-" % prop)
    pending = [(i, d) for i, d in enumerate(descs) if only is None or i in only]
    running = {}
    results, keys, inconc = [], set(), []
    try:
        while pending or running:
            while pending and len(running) < max_workers:
                i, desc = pending.pop(0)
                out = os.path.join(tmpdir, "shard%d.json" % i)
                job = {"prop": prop, "tier": tier, "seed": seed, "shard": i,
                       "nshards": len(descs), "desc": desc, "out": out,
                       "repo": repo_path()}
                extra = env_for(desc) if env_for else None
                errf = open(out + ".err", "w")
                p = subprocess.Popen([sys.executable, "-m", "rv.worker"],
                                     stdin=subprocess.PIPE, stdout=errf, stderr=errf,
                                     env=worker_env(extra), cwd=VERIF_DIR)
                p.stdin.write(json.dumps(job).encode())
                p.stdin.close()
                running[i] = (p, out, time.time(), errf)
            time.sleep(0.05)
            for i, (p, out, t0, errf) in list(running.items()):
                rc = p.poll()
                if rc is None:
                    if time.time() - t0 > timeout_s:
                        p.kill()
                        p.wait()
                        errf.close()
                        inconc.append("worker %d exceeded the %ds watchdog" % (i, timeout_s))
                        del running[i]
                    continue
                errf.close()
                del running[i]
                if rc != 0 or not os.path.exists(out):
                    tail = ""
                    try:
                        tail = open(out + ".err").read()[-1500:]
                    except Exception:
                        pass
                    inconc.append("worker %d died rc=%s: %s" % (i, rc, tail.strip()))
                    continue
                with open(out) as f:
                    results.append(json.load(f))
                a = array.array("Q")
                with open(out + ".keys", "rb") as f:
                    a.frombytes(f.read())
                keys.update(a)
                try:
                    with open(out + ".cov") as f:
                        for fn, ls in json.load(f).items():
                            LINES.setdefault(fn, set()).update(ls)
                except Exception:
                    pass
    finally:
        import shutil

        shutil.rmtree(tmpdir, ignore_errors=True)
    return results, keys, inconc


def load_known():
    path = os.path.join(VERIF_DIR, "known_findings.json")
    if not os.path.exists(path):
        return []
    with open(path) as f:
        return json.load(f)["findings"]


def match_known(v, known):
    for k in known:
        if k.get("status") != "known" or k.get("property") != v["property"]:
            continue
        m = k.get("match", {})
        if "label" in m and (v["label"] not in m["label"] if isinstance(m["label"], list) else m["label"] != v["label"]):
            continue
        if "label_prefix" in m and not v["label"].startswith(m["label_prefix"]):
            continue
        feats = v.get("features", {})
        ok = True
        for fk, fv in m.get("features", {}).items():
            have = feats.get(fk)
            if isinstance(fv, list) and not isinstance(have, list):
                if have not in fv:
                    ok = False
                    break
            elif have != fv:
                ok = False
                break
        if ok:
            return k
    return None


def write_replay(prop, v, n):
    d = os.environ.get("RV_REPLAY_DIR") or os.path.join(VERIF_DIR, "replays")
    os.makedirs(d, exist_ok=True)
    path = os.path.join(d, "%s-%d.json" % (prop, n))
    with open(path, "w") as f:
        json.dump(v, f, ensure_ascii=False, indent=1)
    return path


def run_property(prop, tier=None, seed=None):
    tier = tier or os.environ.get("VERIF_TIER", "quick")
    seed = int(seed if seed is not None else os.environ.get("VERIF_SEED", "0"))
    mod = importlib.import_module("rv.props.%s" % prop.lower())
    t0 = time.time()
    descs = mod.shards(tier, seed)
    # per-worker wall-clock watchdog: a safety net whose firing is INCONCLUSIVE, never a verdict; the per-check budgets were
    # sized on an idle machine, so they are tripled (a fully loaded 16-core box slowed single checks by 2-3x)
    timeout_s = getattr(mod, "TIMEOUT", {}).get(tier, 900 if tier == "quick" else 5400) * float(os.environ.get("RV_WATCHDOG_FACTOR", "3"))
    results, keys, inconc = run_shards(prop, tier, seed, descs, timeout_s,
                                       max_workers=getattr(mod, "MAX_WORKERS", None),
                                       env_for=getattr(mod, "env_for", None))
    merged = {"evaluations": 0, "counters": Counter(), "violations": [],
              "n_violations": 0, "samples": [], "notes": [], "inconclusive": []}
    for r in results:
        merged["evaluations"] += r["evaluations"]
        merged["counters"].update(r["counters"])
        merged["violations"].extend(r["violations"])
        merged["n_violations"] += r["n_violations"]
        merged["samples"].extend(r["samples"])
        merged["notes"].extend(r["notes"])
        merged["inconclusive"].extend(r["inconclusive"])
    inconc.extend(merged["inconclusive"])
    merged["distinct_nontrivial"] = len(keys)
    extra = {}
    if hasattr(mod, "finalize"):
        extra = mod.finalize(merged, tier, seed) or {}
        inconc.extend(extra.pop("inconclusive", []))
        merged["violations"].extend(extra.pop("violations", []))
    if merged["distinct_nontrivial"] < 2 or merged["evaluations"] < 1:
        inconc.append("too few non-trivial cases (%d)" % merged["distinct_nontrivial"])

    if os.environ.get("RV_DUMP_VIOLATIONS"):
        with open(os.environ["RV_DUMP_VIOLATIONS"], "w") as f:
            json.dump(merged["violations"], f, ensure_ascii=False, indent=0)
    known = load_known()
    known_hit, unknown = {}, []
    for v in merged["violations"]:
        k = match_known(v, known)
        if k is not None:
            known_hit.setdefault(k["id"], [k, 0, v])
            known_hit[k["id"]][1] += 1
        else:
            unknown.append(v)
    # detailed list is capped per shard; unknown count is at least len(unknown)
    wall = time.time() - t0
    coverage = {
        "evaluations": int(merged["evaluations"]),
        "distinct_nontrivial": int(merged["distinct_nontrivial"]),
        "rule": getattr(mod, "RULE", ""),
        "samples": merged["samples"][:12] or ["<none>"],
        "exhaustive": bool(extra.pop("exhaustive", getattr(mod, "EXHAUSTIVE", {}).get(tier, False))),
        "counters": dict(sorted(merged["counters"].items())),
        "shards": len(descs),
        "known_findings_hit": {kid: n for kid, (k, n, v) in known_hit.items()},
        "inconclusive_reasons": inconc,
        "notes": merged["notes"][:20],
    }
    coverage.update(extra)
    try:
        from . import linecov

        anchors = []
        with open(os.path.join(VERIF_DIR, "properties.jsonl")) as f:
            for line in f:
                d = json.loads(line)
                if d["id"] == prop:
                    anchors = d.get("anchors", {}).get("files", [])
        if LINES:
            coverage["library_lines_executed"] = linecov.summarise(LINES, repo_path(), anchors)
            if os.environ.get("VERIF_REPO", "/repo") == "/repo":      # full sets only for the tree itself (tools/linecov.py)
                covdir = os.path.join(VERIF_DIR, ".scratch", "linecov")
                os.makedirs(covdir, exist_ok=True)
                with open(os.path.join(covdir, "%s-%s.json" % (prop, tier)), "w") as f:
                    json.dump({fn: sorted(ls) for fn, ls in LINES.items()}, f)
    except Exception as e:      # an observation, never a verdict
        coverage["library_lines_executed"] = {"unavailable": repr(e)[:200]}
    evidence = {
        "property_id": prop, "tier": tier, "seed": seed,
        "level": getattr(mod, "LEVEL", "exploration"),
        "coverage": coverage,
        "assumptions": getattr(mod, "ASSUMPTIONS", []),
        "wall_s": round(wall, 2),
        "violations": len(unknown),
        "verdict": "violated" if unknown else ("inconclusive" if inconc else "held"),
        "repo": repo_path(),
    }
    evdir = os.environ.get("RV_EVIDENCE_DIR") or os.path.join(VERIF_DIR, "evidence")
    os.makedirs(evdir, exist_ok=True)
    with open(os.path.join(evdir, "%s.json" % prop), "w") as f:
        json.dump(evidence, f, ensure_ascii=False, indent=1, sort_keys=True)
        f.write("\n")

    for kid, (k, n, v) in sorted(known_hit.items()):
        print("KNOWN-FINDING: property=%s %s %s (%d case(s) this run, e.g. %s)" % (
            prop, kid, k.get("what", ""), n, dumps(v["case"])[:200]))
    print("%s tier=%s seed=%d evaluations=%d distinct_nontrivial=%d violations=%d known=%d wall=%.1fs" % (
        prop, tier, seed, merged["evaluations"], merged["distinct_nontrivial"],
        len(unknown), sum(n for _, n, _ in known_hit.values()), wall))
    if unknown:
        per_label = Counter()
        n = 0
        for v in unknown:
            per_label[v["label"]] += 1
            if per_label[v["label"]] > 3:
                continue
            n += 1
            path = write_replay(prop, v, n)
            print("VIOLATION property=%s replay=%s label=%s case=%s observed=%s expected=%s" % (
                prop, path, v["label"], dumps(v["case"])[:300], dumps(v["observed"])[:200],
                dumps(v["expected"])[:200]))
            if n >= 25:
                break
        return 1
    if inconc:
        for r in inconc[:10]:
            print("INCONCLUSIVE property=%s reason=%s" % (prop, r))
        return 2
    return 0


def replay(prop, path):
    from .util import setup_repo_path

    setup_repo_path()
    mod = importlib.import_module("rv.props.%s" % prop.lower())
    with open(path) as f:
        v = json.load(f)
    ctx = Ctx(prop, v.get("tier", "quick"), v.get("seed", 0), 0, 1)
    mod.replay_case(ctx, v)
    known = load_known()
    bad = [x for x in ctx.violations if match_known(x, known) is None]
    for x in ctx.violations:
        k = match_known(x, known)
        if k is not None:
            print("KNOWN-FINDING: property=%s %s %s" % (prop, k["id"], k.get("what", "")))
    if bad:
        print("VIOLATION property=%s replay=%s label=%s observed=%s expected=%s" % (
            prop, path, bad[0]["label"], dumps(bad[0]["observed"])[:300],
            dumps(bad[0]["expected"])[:300]))
        return 1
    # the case alone does not show it: a witness may depend on what the shard did before it (order- and history-dependent
    # defects).  Shards are deterministic in (seed, tier, shard index): re-run the very shard the witness came from, in a
    # fresh interpreter, and look for the same label on the same case.
    if "shard" in v and os.environ.get("RV_REPLAY_SHARD", "1") == "1":
        tier, seed = v.get("tier", "quick"), int(v.get("seed", 0))
        descs = mod.shards(tier, seed)
        if 0 <= v["shard"] < len(descs):
            timeout_s = getattr(mod, "TIMEOUT", {}).get(tier, 900)
            results, _, inconc = run_shards(prop, tier, seed, descs, timeout_s, max_workers=1,
                                            env_for=getattr(mod, "env_for", None), only=[v["shard"]])
            for r in results:
                for x in r["violations"]:
                    if x["label"] == v["label"] and match_known(x, known) is None and \
                            (x["case"] == v["case"] or x["features"] == v.get("features")):
                        print("VIOLATION property=%s replay=%s label=%s observed=%s expected=%s (reproduced by re-running "
                              "shard %d of seed %d, tier %s)" % (prop, path, x["label"], dumps(x["observed"])[:300],
                                                                  dumps(x["expected"])[:300], v["shard"], seed, tier))
                        return 1
    print("%s replay %s: not reproduced on this tree (held)" % (prop, path))
    return 0
