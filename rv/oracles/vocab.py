"""The library's vocabulary read as data: which words a locale lists, under which keys,
and whether a word has a single meaning in the form the configuration looks up."""
import collections
import unicodedata

MONTHS = ["january", "february", "march", "april", "may", "june", "july", "august", "september", "october",
          "november", "december"]
WEEKDAYS = ["monday", "tuesday", "wednesday", "thursday", "friday", "saturday", "sunday"]
UNITS = ["decade", "year", "month", "week", "day", "hour", "minute", "second"]
OTHER = ["ago", "in", "am", "pm"]
WORD_KEYS = MONTHS + WEEKDAYS + UNITS + OTHER


def strip_accents(s):
    # same definition as dateparser.utils.normalize_unicode, re-stated here on purpose
    return "".join(c for c in unicodedata.normalize("NFKD", s) if unicodedata.category(c) != "Mn")


def lookup_form(word, normalize):
    w = word.lower()
    return strip_accents(w) if normalize else w


def meaning_map(info, normalize):
    """lookup form -> set of keys the merged locale info lists it under (dictionary-feeding keys)."""
    m = collections.defaultdict(set)
    for k in WORD_KEYS:
        for w in info.get(k, []) or []:
            if isinstance(w, str):
                m[lookup_form(w, normalize)].add(k)
    for w in info.get("skip", []) or []:
        m[lookup_form(w, normalize)].add("skip")
    for w in info.get("pertain", []) or []:
        m[lookup_form(w, normalize)].add("pertain")
    for k, v in (info.get("relative-type", {}) or {}).items():
        for w in v:
            m[lookup_form(w, normalize)].add("rel:" + k)
    return m


def all_locales():
    from dateparser.data.languages_info import language_locale_dict, language_order

    out = []
    for lang in language_order:
        out.append((lang, lang))
        for loc in language_locale_dict[lang]:
            out.append((lang, loc))
    return out


def overlay(primary, extra):
    """Own statement of the locale overlay rule: lists are extended, mappings merged, scalars replaced."""
    out = collections.OrderedDict()
    for k, v in primary.items():
        if k in extra:
            if isinstance(v, list):
                out[k] = list(v) + list(extra[k])
            elif isinstance(v, dict):
                out[k] = overlay(v, extra[k])
            else:
                out[k] = extra[k]
        else:
            out[k] = v
    for k, v in extra.items():
        if k not in primary:
            out[k] = v
    return out


_INFO = {}
_LANG = {}


def language_data(lang):
    """The shipped data module of a language, read from its file into a private object: the library's own
    module-level dict may be mutated by the code under test, the oracle's copy may not."""
    import importlib.util
    import os

    if lang not in _LANG:
        spec = importlib.util.find_spec("dateparser.data.date_translation_data")
        path = os.path.join(list(spec.submodule_search_locations)[0], lang + ".py")
        ns = {}
        with open(path, encoding="utf-8") as f:
            exec(compile(f.read(), path, "exec"), ns)
        _LANG[lang] = ns["info"]
    return _LANG[lang]



def locale_info(loc, lang=None):
    """Merged info of a locale, computed here from the shipped data modules (not by the library)."""
    import importlib
    import re

    if loc in _INFO:
        return _INFO[loc]
    if lang is None:
        lang = re.split(r"-(?=[A-Z0-9]+$)", loc)[0]
    base = language_data(lang)
    spec = (base.get("locale_specific", {}) or {}).get(loc, {}) if loc != lang else {}
    info = overlay(base, spec)
    info.pop("locale_specific", None)
    _INFO[loc] = info
    return info


_LOADER = None


def get_locale(loc):
    """The library's own Locale object (used only for taps/classification, never as the oracle)."""
    global _LOADER
    from dateparser.languages.loader import LocaleDataLoader

    if _LOADER is None:
        _LOADER = LocaleDataLoader()
    return _LOADER.get_locale(loc)
