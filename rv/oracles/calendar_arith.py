"""Independent calendar arithmetic (no dateutil): the reference model for relative phrases."""
import calendar
from datetime import datetime, timedelta
from fractions import Fraction

UNIT_SECONDS = {"second": 1, "minute": 60, "hour": 3600, "day": 86400, "week": 7 * 86400}
UNITS = ["second", "minute", "hour", "day", "week", "month", "year", "decade"]


def add_months(d, k):
    """d shifted by k calendar months, day clamped to the month length; None outside 1..9999."""
    idx = d.year * 12 + (d.month - 1) + k
    y, m = divmod(idx, 12)
    m += 1
    if not (1 <= y <= 9999):
        return None
    return d.replace(year=y, month=m, day=min(d.day, calendar.monthrange(y, m)[1]))


def shift(b, parts, sign):
    """b +/- sum of (count, unit); counts are int or Fraction; None when out of range."""
    months = 0
    micros = Fraction(0)
    for n, u in parts:
        if u == "month":
            months += int(n)
        elif u == "year":
            months += 12 * int(n)
        elif u == "decade":
            months += 120 * int(n)
        else:
            micros += Fraction(n) * UNIT_SECONDS[u] * 10 ** 6
    d = add_months(b, sign * months)
    if d is None:
        return None
    if micros.denominator != 1:
        raise ValueError("count not representable in whole microseconds")
    try:
        return d + timedelta(microseconds=sign * int(micros))
    except OverflowError:
        return None


def period_of(units, has_clock_time=False, time_as_period=False):
    if time_as_period and has_clock_time:
        return "time"
    if "day" in units:
        return "day"
    for k in ("week", "month", "year"):
        if k in units or (k == "year" and "decade" in units):
            return k
    return "day"
