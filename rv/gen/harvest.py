"""One-off: harvest the multilingual date strings of the repository's own test suite
(AST walk over param(...) rows) into rv/data/corpus.json.  The corpus is committed;
checks never re-harvest (tests/ may be edited by a change under test)."""
import ast
import collections
import json
import os
import sys


def main(repo="/repo"):
    sys.path.insert(0, repo)
    from dateparser.data.languages_info import language_order

    out = collections.OrderedDict()
    for fn in ["test_languages", "test_date_parser", "test_freshness_date_parser", "test_date",
               "test_parser", "test_clean_api", "test_timezone_parser", "test_settings"]:
        tree = ast.parse(open(os.path.join(repo, "tests", fn + ".py"), encoding="utf-8").read())
        for node in ast.walk(tree):
            if isinstance(node, ast.Call) and getattr(node.func, "id", getattr(node.func, "attr", None)) == "param":
                args = [a for a in node.args if isinstance(a, ast.Constant) and isinstance(a.value, str)]
                kws = {k.arg: k.value.value for k in node.keywords
                       if isinstance(k.value, ast.Constant) and isinstance(k.value.value, str)}
                lang = s = None
                if fn == "test_languages" and len(args) >= 2:
                    lang, s = args[0].value, args[1].value
                elif args:
                    s = args[0].value
                for k in ("date_string", "datetime_string", "date", "string"):
                    if k in kws:
                        s = kws[k]
                if s and len(s) <= 100:
                    out.setdefault(s, (fn, lang if lang in language_order else None))
    rows = [[k, v[0], v[1]] for k, v in out.items()]
    path = os.path.join(os.path.dirname(os.path.dirname(os.path.abspath(__file__))), "data", "corpus.json")
    with open(path, "w", encoding="utf-8") as f:
        json.dump(rows, f, ensure_ascii=False, indent=0)
    print(len(rows), collections.Counter(r[1] for r in rows))


if __name__ == "__main__":
    main()
