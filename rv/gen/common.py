"""Seeded generators shared by the property modules."""
import calendar
import json
import os
import random
from datetime import datetime, timedelta

from ..util import khash

DATA_DIR = os.path.join(os.path.dirname(os.path.dirname(os.path.abspath(__file__))), "data")

MN = ["January", "February", "March", "April", "May", "June", "July", "August", "September",
      "October", "November", "December"]
MA = [m[:3] for m in MN]
WN = ["Monday", "Tuesday", "Wednesday", "Thursday", "Friday", "Saturday", "Sunday"]

DT_MIN = datetime(1, 1, 1)
DT_MAX = datetime(9999, 12, 31, 23, 59, 59, 999999)


def rng(seed, prop, shard, salt=0):
    return random.Random(khash(int(seed), prop, int(shard), salt))


def corpus():
    with open(os.path.join(DATA_DIR, "corpus.json"), encoding="utf-8") as f:
        return [tuple(r) for r in json.load(f)]


def mdays(y, m):
    return calendar.monthrange(y, m)[1]


def rand_datetime(rnd, lo=DT_MIN, hi=DT_MAX):
    span = hi - lo
    return lo + timedelta(days=rnd.randrange(span.days + 1), seconds=rnd.randrange(86400),
                          microseconds=rnd.randrange(10 ** 6))


BOUNDARY_TIMES = [(0, 0, 0), (0, 59, 59), (11, 59, 59), (12, 0, 0), (12, 59, 59), (23, 59, 59)]
BOUNDARY_US = [0, 1, 500, 100000, 999999]


def month_end_datetimes(rnd, n, ylo=1, yhi=9999):
    out = []
    for _ in range(n):
        y, m = rnd.randrange(ylo, yhi + 1), rnd.randrange(1, 13)
        h, mi, s = rnd.choice(BOUNDARY_TIMES)
        out.append(datetime(y, m, mdays(y, m), h, mi, s, rnd.choice(BOUNDARY_US)))
    return out


def leap_days(rnd, n):
    years = [4, 96, 104, 400, 1600, 1896, 1904, 2000, 2024, 2096, 2104, 2400, 9996]
    out = []
    for _ in range(n):
        y = rnd.choice(years + [rnd.randrange(1, 2500) * 4])
        if y <= 9999 and calendar.isleap(y):
            h, mi, s = rnd.choice(BOUNDARY_TIMES)
            out.append(datetime(y, 2, 29, h, mi, s, rnd.choice(BOUNDARY_US)))
    return out


def split_evenly(items, n):
    n = max(1, min(n, len(items) or 1))
    return [items[i::n] for i in range(n)]


# ------------------------------------------------------------------ zones
_TZ_TABLE = None


def tz_table():
    """[(name, {'regex': compiled, 'offset': timedelta})] in the library's matching order.  Taken from the library's loaded
    table; if that internal was renamed or moved, rebuilt here from the zone definitions (timezone_info_list, read as data)
    the way the definitions describe themselves: every regex pattern x every zone, plus the listed alternate spellings."""
    global _TZ_TABLE
    if _TZ_TABLE is None:
        try:
            from dateparser.timezone_parser import _tz_offsets

            _TZ_TABLE = list(_tz_offsets)
        except Exception:
            import regex as re
            from dateparser.timezones import timezone_info_list

            out = []
            for info in timezone_info_list:
                for rx in info["regex_patterns"]:
                    for name, off in info["timezones"]:
                        out.append((name, {"regex": re.compile(rx % name, re.IGNORECASE), "offset": timedelta(seconds=off)}))
                        for repl, replw in info.get("replace", []):
                            out.append((name, {"regex": re.compile(re.sub(repl, replw, rx % name), re.IGNORECASE),
                                               "offset": timedelta(seconds=off)}))
            _TZ_TABLE = out
    return _TZ_TABLE


def zone_pools():
    """(single_iana, single_abbr, dual) as lists of names.

    single_iana : IANA names the library's table does not also match
    single_abbr : table abbreviations pytz does not know
    dual        : names known to both pytz and the table (two defensible readings)."""
    import pytz
    from dateparser.timezones import timezone_info_list

    _tz_offsets = tz_table()

    table_names = []
    for info in timezone_info_list:
        for tz in info["timezones"]:
            table_names.append(tz[0])
    pytz_all = set(pytz.all_timezones)

    def table_matches(name):
        s = " %s" % name
        for n, info in _tz_offsets:
            if info["regex"].search(s):
                return True
        return False

    abbr = sorted(set(n for n in table_names if not any(c.isdigit() for c in n)))
    dual = sorted(n for n in abbr if n in pytz_all)
    single_abbr = sorted(n for n in abbr if n not in pytz_all)
    single_iana = sorted(n for n in pytz.common_timezones if not table_matches(n))
    dual += sorted(n for n in pytz.common_timezones if table_matches(n) and n not in dual)
    return single_iana, single_abbr, dual


def table_offset_of(name):
    """Offset (timedelta) the library's table gives for an abbreviation/offset spelling,
    read from the table as data: first matching entry wins."""
    s = " %s" % name
    for n, info in tz_table():
        if info["regex"].search(s):
            return info["offset"]
    return None


# ------------------------------------------------------------------ DST edges
DST_ZONES = ["America/New_York", "Europe/London", "Europe/Berlin", "Australia/Sydney", "Australia/Lord_Howe",
             "America/Sao_Paulo", "America/St_Johns", "Pacific/Auckland", "Asia/Tehran", "Africa/Cairo", "America/Havana",
             "Atlantic/Azores", "America/Santiago", "Pacific/Chatham", "Europe/Moscow", "Asia/Kolkata"]


def dst_edges(zone, ylo=1971, yhi=2037):
    """[(utc transition instant, offset before, offset after)] of a pytz zone, read from pytz's own tables:
    the wall clock jumps from t+before to t+after (gap when after > before, fold when after < before)."""
    import pytz

    tz = pytz.timezone(zone)
    tts = getattr(tz, "_utc_transition_times", None)
    if not tts:
        return []
    out = []
    for i in range(1, len(tts)):
        t = tts[i]
        if not (ylo <= t.year <= yhi):
            continue
        before, after = tz._transition_info[i - 1][0], tz._transition_info[i][0]
        if before != after:
            out.append((t, before, after))
    return out


def dst_wall_case(rnd, zone=None, ylo=1971, yhi=2037):
    """A local wall time inside a gap or a fold (or right at its edges) of a DST zone, with a nearby reference.
    Returns dict(zone, kind 'gap'|'fold', wall (naive local, minute precision), base (naive), t_utc)."""
    for _ in range(50):
        z = zone or rnd.choice(DST_ZONES)
        edges = dst_edges(z, ylo, yhi)
        if edges:
            break
    else:
        raise RuntimeError("no DST edges found")
    t, before, after = rnd.choice(edges)
    lo, hi = sorted([t + before, t + after])
    span = int((hi - lo).total_seconds() // 60)
    k = rnd.random()
    if k < 0.7:
        wall = lo + timedelta(minutes=rnd.randrange(max(span, 1)))
    elif k < 0.85:
        wall = rnd.choice([lo, hi, lo - timedelta(minutes=1), hi + timedelta(minutes=1)])
    else:
        wall = lo + timedelta(minutes=rnd.randrange(-180, 180))
    wall = wall.replace(second=0, microsecond=0)
    day0 = wall.replace(hour=0, minute=0)
    base = rnd.choice([day0, day0 + timedelta(hours=12), day0 + timedelta(hours=23, minutes=59), wall,
                       wall + timedelta(minutes=rnd.choice([-61, -30, -1, 1, 30, 61])), day0 - timedelta(hours=12),
                       day0 + timedelta(days=1, hours=1), t, t + timedelta(minutes=rnd.randrange(-120, 120))])
    return {"zone": z, "kind": "gap" if after > before else "fold", "wall": wall, "base": base.replace(microsecond=0), "t_utc": t}
