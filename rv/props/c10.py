"""C10 — strictness only filters; strict results never borrow from the clock."""
import itertools
from datetime import datetime

from ..gen.common import corpus, rng
from ..hooks import AnchorCounter
from ..monitors import PathTap
from ..oracles import vocab
from ..util import iso

LEVEL = "exploration"
RULE = ("(i) the committed corpus (2,308 strings) with the language pinned (test tag, else the locale one autodetecting parse "
        "reports); (ii) generated partial dates in every language (quick: 40 languages incl. the 20 most used; thorough: all 205): "
        "every non-empty subset of {day, month (own resolvable single-meaning name), 4-digit year, weekday (own name), HH:MM} in "
        "the locale's date order; (iii) digit-only strings for the no-spaces parser; (iv) custom formats lacking parts. Each "
        "string x {loose, STRICT_PARSING, every non-empty subset of REQUIRE_PARTS} x pairs of distant reference times (6 pairs: mid-month, "
        "first/last days of a month, leap day, Dec 31/Jan 1; quick: the mid-month pair + one rotating pair per string, thorough: all) x "
        "PREFER_DATES_FROM {default, past, future} rotating, PARSERS "
        "restricted to timestamp/custom-formats/absolute-time (resp. no-spaces-time). Relations: strict in {None, loose}; "
        "strict(b1) == strict(b2); REQUIRE_PARTS result in {None, loose} and its required parts equal under both clocks; for "
        "strings built only from names, HH:MM and a 4-digit year, a result that requires an absent part must be None. "
        "non-trivial distinct = distinct (language, string, configuration) whose strict/required result was non-None, plus "
        "by-construction None assertions.")
ASSUMPTIONS = ["language pinned: with autodetection a different language may accept the string once strictness rejects the first "
               "(C13's subject)",
               "by-construction 'part missing' is only claimed for digit-free tokens + 4-digit year + HH:MM (a bare 1-2 digit "
               "number may be read as day or 2-digit year depending on the locale order)"]
TIMEOUT = {"quick": 900, "thorough": 3600}
ANCHORS = [("dateparser.parser", "_check_strict_parsing"), ("dateparser.utils", "_get_missing_parts"),
           ("dateparser.parser", "_parser._results"), ("dateparser.parser", "_no_spaces_parser.parse")]
B1, B2 = datetime(1987, 3, 14, 5, 6, 7), datetime(2031, 11, 29, 18, 45, 1)
# pairs of distant reference times; besides the mid-month pair, pairs whose members sit on the first/last days of a month,
# on a leap day and on either side of a year change (a clock-borrowing part shows where the borrowed day/month/year rolls over)
BASE_PAIRS = [(B1, B2),
              (datetime(1998, 3, 2, 0, 0, 1), datetime(2041, 10, 30, 23, 59)),
              (datetime(2016, 2, 29, 12, 0), datetime(2023, 1, 1, 0, 0)),
              (datetime(1999, 12, 31, 23, 59, 59), datetime(2020, 7, 5, 8, 0)),
              (datetime(2012, 5, 1, 0, 0), datetime(2027, 8, 31, 13, 0)),
              (datetime(1976, 11, 6, 9, 30), datetime(2034, 4, 25, 17, 0))]
PREFS = [None, "past", "future"]
ABS = ["timestamp", "custom-formats", "absolute-time"]
NSP = ["no-spaces-time"]
PART_SUBSETS = [list(c) for r in range(1, 4) for c in itertools.combinations(["day", "month", "year"], r)]
SAFE_SUBSETS = [("M",), ("W",), ("T",), ("M", "W"), ("M", "T"), ("W", "T"), ("M", "W", "T"), ("Y",), ("M", "Y"), ("M", "Y", "T"),
                ("W", "Y"), ("Y", "T")]
NEED = {"day": "D", "month": "M", "year": "Y"}


def shards(tier, seed):
    out = [{"part": "corpus", "i": i, "k": 8} for i in range(8)]
    out += [{"part": "generated", "i": i, "k": 6} for i in range(6)]
    out += [{"part": "misc"}]
    return out


def P(s, lang, base, parsers, formats=None, **st):
    from dateparser.date import DateDataParser

    settings = dict(RELATIVE_BASE=base, PARSERS=parsers, **st)
    try:
        return DateDataParser(languages=[lang], settings=settings).get_date_data(s, formats)["date_obj"]
    except Exception as e:
        return e


def relations(ctx, s, lang, parsers, formats=None, parts_present=None, kind="corpus", pair=0, pref=None):
    """Run the whole configuration matrix for one string and check the relations."""
    res = {}
    extra = {"PREFER_DATES_FROM": pref} if pref else {}
    ctx.count("base_pair:%d" % pair)
    ctx.count("pref:%s" % pref)
    for bi, b in enumerate(BASE_PAIRS[pair]):
        loose = P(s, lang, b, parsers, formats, **extra)
        strict = P(s, lang, b, parsers, formats, STRICT_PARSING=True, **extra)
        res[bi] = (loose, strict)
        ctx.ran(2)
        case = {"kind": kind, "string": s, "language": lang, "parsers": parsers, "formats": formats, "base": iso(b),
                "parts_present": parts_present, "pair": pair, "pref": pref}
        if isinstance(strict, Exception) or isinstance(loose, Exception):
            ctx.count("raised(C02's subject)")
            continue
        if strict is not None:
            ctx.nontrivial(lang, s, "strict", bi, repr(formats), tuple(parsers), pair, pref)
            ctx.count("strict_non_none")
            if strict != loose:
                ctx.violation(case, {"strict": strict, "loose": loose}, "strict in {None, loose}", "strict-changes-value",
                              {"kind": kind, "config": "STRICT_PARSING"})
            if parts_present is not None and not {"D", "M", "Y"} <= set(parts_present):
                ctx.violation(case, strict, None, "strict-result-without-stated-parts",
                              {"kind": kind, "config": "STRICT_PARSING", "custom_format": bool(formats)})
        elif parts_present is not None and not {"D", "M", "Y"} <= set(parts_present):
            ctx.count("strict_none_by_construction")
            ctx.nontrivial(lang, s, "strict-none", bi, repr(formats), pair, pref)
        if not isinstance(strict, Exception) and not isinstance(loose, Exception):
            # STRICT_PARSING together with an explicit (smaller) REQUIRE_PARTS: strictness still requires all three parts
            for parts in (["year"], []):
                both = P(s, lang, b, parsers, formats, STRICT_PARSING=True, REQUIRE_PARTS=parts, **extra)
                ctx.ran()
                if isinstance(both, Exception):
                    continue
                if both != strict:
                    ctx.violation(dict(case, require=parts), {"strict+require": both, "strict": strict},
                                  "the STRICT_PARSING result", "strict-loosened-by-require-parts",
                                  {"kind": kind, "config": "STRICT_PARSING+REQUIRE_PARTS"})
                else:
                    ctx.count("strict_with_require_parts_agrees")
        for parts in PART_SUBSETS:
            rp = P(s, lang, b, parsers, formats, REQUIRE_PARTS=parts, **extra)
            ctx.ran()
            res[bi, tuple(parts)] = rp
            if isinstance(rp, Exception):
                continue
            if rp is not None:
                ctx.count("require_non_none")
                ctx.nontrivial(lang, s, tuple(parts), bi, repr(formats), tuple(parsers), pair, pref)
                if rp != loose:
                    feats = {"kind": kind, "config": "REQUIRE_PARTS"}
                    if formats:
                        # mechanism classifier: is the changed value the heuristic (format-free) reading?
                        feats["equals_heuristic_reading"] = P(s, lang, b, parsers, None, REQUIRE_PARTS=parts, **extra) == rp
                    ctx.violation(dict(case, require=parts), {"required": rp, "loose": loose}, "result in {None, loose}",
                                  "require-changes-value", feats)
                if parts_present is not None and any(NEED[x] not in parts_present for x in parts):
                    ctx.violation(dict(case, require=parts), rp, None, "required-part-absent-but-result",
                                  {"kind": kind, "config": "REQUIRE_PARTS", "custom_format": bool(formats)})
    a, b_ = res.get(0, (None, None))[1], res.get(1, (None, None))[1]
    # under PREFER_DATES_FROM past/future the century of a two-digit year is chosen relative to the reference (C09's clause):
    # there the year is compared modulo 100
    def same_full(x, y):
        if pref in ("past", "future") and isinstance(x, datetime) and isinstance(y, datetime):
            return (x.month, x.day, x.time(), x.year % 100) == (y.month, y.day, y.time(), y.year % 100)
        return x == y

    if not isinstance(a, Exception) and not isinstance(b_, Exception) and not same_full(a, b_):
        ctx.violation({"kind": kind, "string": s, "language": lang, "parsers": parsers, "formats": formats, "pair": pair,
                       "pref": pref, "parts_present": parts_present},
                      {"b1": a, "b2": b_}, "identical under both reference times", "strict-depends-on-clock",
                      {"kind": kind, "config": "STRICT_PARSING"})
    for parts in PART_SUBSETS:
        x, y = res.get((0, tuple(parts))), res.get((1, tuple(parts)))
        if isinstance(x, datetime) and isinstance(y, datetime):
            if any((getattr(x, p) % 100 if (p == "year" and pref in ("past", "future")) else getattr(x, p)) !=
                   (getattr(y, p) % 100 if (p == "year" and pref in ("past", "future")) else getattr(y, p)) for p in parts):
                ctx.violation({"kind": kind, "string": s, "language": lang, "require": parts, "formats": formats, "pair": pair,
                               "pref": pref, "parsers": parsers, "parts_present": parts_present},
                              {"b1": x, "b2": y}, "required parts identical under both reference times",
                              "required-part-depends-on-clock", {"kind": kind, "config": "REQUIRE_PARTS"})


def run_corpus(ctx, desc):
    from dateparser.date import DateDataParser

    rows = corpus()[desc["i"]::desc["k"]]
    if ctx.tier == "quick":
        rows = rows[::3]
    dp = DateDataParser()
    for s, fn, lang in rows:
        if not lang:
            try:
                lang = dp.get_date_data(s)["locale"]
            except Exception:
                lang = None
        if not lang:
            ctx.count("corpus:no-language-dropped")
            continue
        lang = lang.split("-")[0] if lang not in vocab_languages() else lang
        if lang not in vocab_languages():
            ctx.count("corpus:no-language-dropped")
            continue
        n_c = ctx.counters.get("corpus:strings", 0)
        relations(ctx, s, lang, ABS)
        if ctx.tier == "thorough" or n_c % 2 == 0:
            relations(ctx, s, lang, ABS, pair=1 + n_c % (len(BASE_PAIRS) - 1), pref=PREFS[n_c % 3])
        ctx.count("corpus:strings")
    ctx.sample({"corpus_strings": [r[0] for r in rows[:5]]})


_LANGS = None


def vocab_languages():
    global _LANGS
    if _LANGS is None:
        from dateparser.data.languages_info import language_order

        _LANGS = list(language_order)
    return _LANGS


def resolvable_names(lang):
    """Own-language month and weekday names that are single-meaning and resolve (C05's resolvable set)."""
    from dateparser.date import DateDataParser

    info = vocab.locale_info(lang, lang)
    mm = vocab.meaning_map(info, True)
    probe = DateDataParser(languages=[lang], settings={"RELATIVE_BASE": B1})
    mons, wds = [], []
    for mi, k in enumerate(vocab.MONTHS):
        for w in (info.get(k) or [])[:2]:
            if any(ch.isdigit() for ch in w):
                continue
            if mm.get(vocab.lookup_form(w, True)) == {k}:
                try:
                    if probe.get_date_data("13 %s 2015" % w)["date_obj"] == datetime(2015, mi + 1, 13):
                        mons.append(w)
                except Exception:
                    pass
    for k in vocab.WEEKDAYS:
        for w in (info.get(k) or [])[:1]:
            if any(ch.isdigit() for ch in w):
                continue
            if mm.get(vocab.lookup_form(w, True)) == {k}:
                try:
                    if probe.get_date_data(w)["date_obj"] is not None:
                        wds.append(w)
                except Exception:
                    pass
    return mons, wds


def rewritten_names(lang):
    """Month/weekday names (every listed variant) that one of the language's own simplifications also matches, e.g. French
    'sept' (September / the number word 7): the string then has two readings, and strictness must not pick another one
    than the loose run does.  Computed from the data files."""
    import regex

    info = vocab.locale_info(lang, lang)
    pats = []
    for sim in info.get("simplifications", []) or []:
        for pat in sim:
            try:
                pats.append(regex.compile(r"(?<=\A|\W|_)%s(?=\Z|\W|_)" % pat, regex.I | regex.U))
            except Exception:
                pass
    out = []
    mm = vocab.meaning_map(info, True)
    for k in vocab.MONTHS + vocab.WEEKDAYS:
        for w in info.get(k) or []:
            if any(ch.isdigit() for ch in w):
                continue
            lw = w.lower()
            if any(p_.search(lw) or p_.search(vocab.lookup_form(lw, True)) for p_ in pats):
                out.append((k, w))
            elif len(mm.get(vocab.lookup_form(w, True)) or ()) > 1:     # listed under two keys: two readings as well
                out.append((k, w))
    return out


def run_rewritten(ctx, lang, order):
    for k, w in rewritten_names(lang)[:6 if ctx.tier == "quick" else 40]:
        for toks in (["2013", w] if order.startswith("Y") else [w, "2013"], ["17", w], [w], [w, "10:45"], [w, "17"],
                     ["17", w, "2013"]):
            n_g = ctx.counters.get("generated:rewritten-name-strings", 0)
            relations(ctx, " ".join(toks), lang, ABS, parts_present=None, kind="generated-rewritten-name",
                      pair=n_g % len(BASE_PAIRS), pref=PREFS[n_g % 3] if n_g % 2 else None)
            ctx.count("generated:rewritten-name-strings")


def run_generated(ctx, desc):
    langs = vocab_languages()
    if ctx.tier == "quick":
        langs = langs[:20] + langs[20::9]
    mine = langs[desc["i"]::desc["k"]]
    for lang in mine:
        mons, wds = resolvable_names(lang)
        if not mons:
            ctx.count("generated:language-without-resolvable-month")
            continue
        order = vocab.locale_info(lang, lang).get("date_order", "MDY")
        run_rewritten(ctx, lang, order)
        for mw in mons[:2 if ctx.tier == "quick" else 3]:
            for r in range(1, 6):
                for parts in itertools.combinations(["D", "M", "Y", "W", "T"], r):
                    f = {"D": "17", "M": mw, "Y": "2013"}
                    toks = [f[c] for c in order if c in parts]
                    if "W" in parts:
                        if not wds:
                            continue
                        toks.insert(0, wds[0])
                    if "T" in parts:
                        toks.append("10:45")
                    if not toks:
                        continue
                    s = " ".join(toks)
                    safe = tuple(p for p in ("M", "W", "Y", "T") if p in parts) == tuple(sorted(parts, key="MWYT".find)) \
                        and tuple(sorted(parts, key="MWYT".find)) in SAFE_SUBSETS and "D" not in parts
                    n_g = ctx.counters.get("generated:strings", 0)
                    pp = list(parts) if safe else None
                    if "D" in parts and ("M" in parts or "Y" in parts) and mw == mons[0]:
                        # placeholder spellings of the day ('00', '0'): whatever they are read as, the relations must hold
                        for z in ("00", "0"):
                            sz = " ".join(z if t == "17" else t for t in toks)
                            relations(ctx, sz, lang, ABS, parts_present=None, kind="generated-zero",
                                      pair=1 + n_g % (len(BASE_PAIRS) - 1))
                            ctx.count("generated:zero-placeholder-strings")
                    relations(ctx, s, lang, ABS, parts_present=pp, kind="generated")
                    if ctx.tier == "thorough":
                        for pi in range(1, len(BASE_PAIRS)):
                            relations(ctx, s, lang, ABS, parts_present=pp, kind="generated", pair=pi, pref=PREFS[(n_g + pi) % 3])
                    else:
                        relations(ctx, s, lang, ABS, parts_present=pp, kind="generated", pair=1 + n_g % (len(BASE_PAIRS) - 1),
                                  pref=PREFS[(n_g // 5) % 3])
                    ctx.count("generated:strings")
        ctx.count("generated:languages")
    ctx.sample({"generated_languages": mine[:8]})


def run_misc(ctx):
    # (iii) digit-only strings through the no-spaces parser
    for s in ["20150512", "201505", "0512", "2015", "12052015", "150512", "20150512 1045", "1045", "05122015104530",
              "2015051210", "151205", "31122015", "20153112", "1231", "12", "2015-05", "052015"]:
        for pi in range(len(BASE_PAIRS)):
            relations(ctx, s, "en", NSP, kind="no-spaces", pair=pi, pref=PREFS[pi % 3])
    # a colon-separated clock time states no calendar part at all, whichever parser reads it
    # (the opt-in no-spaces parser strips the colons and may read '10:45' as the date 10-4-5: it is not among the parsers
    # the property quantifies over, so the clock times go through the listed parsers only)
    for s in ["10:45", "10:45:30", "23:59", "00:00:01"]:
        for pi in (0, 2, 4):
            relations(ctx, s, "en", ABS, parts_present=["T"], kind="clock-time", pair=pi, pref=PREFS[pi % 3])
        ctx.count("misc:clock-time")
        ctx.count("misc:nospaces")
    for s in ["00/03/2012", "03/00/2012", "00.03.2012", "2012-00-15", "2012-05-00", "00 May 2015", "May 00, 2015", "0/0/2015",
              "00-00-2015", "15/00", "00/2015"]:
        for lang in ("en", "de", "fr"):
            for pi in range(len(BASE_PAIRS)):
                relations(ctx, s, lang, ABS, kind="zero-placeholder", pair=pi, pref=PREFS[pi % 3])
        ctx.count("misc:zero-placeholder")
    # (iv) custom formats that lack parts: strictness must also apply when the caller supplies the format
    # by-construction 'part absent' only where no 1-2 digit token could be re-read as that part
    fm_cases = [("%B %Y", "May 2015", ["M", "Y"]), ("%m/%Y", "05/2015", None), ("%Y", "2015", ["Y"]),
                ("%d %B", "12 May", None), ("%H:%M", "10:45", ["T"]), ("%d.%m.%Y", "12.05.2015", ["D", "M", "Y"]),
                ("%Y-%m-%d %H:%M", "2015-05-12 10:45", ["D", "M", "Y", "T"]), ("%b %y", "May 15", None),
                ("%A %d", "Tuesday 12", None), ("%j %Y", "132 2015", None), ("%B", "May", ["M"]),
                ("%A, %B %Y", "Tuesday, May 2015", ["W", "M", "Y"]), ("%Y %H:%M", "2015 10:45", ["Y", "T"])]
    for fmt, s, present in fm_cases:
        for pi in range(len(BASE_PAIRS)):
            relations(ctx, s, "en", ABS, formats=[fmt], parts_present=present, kind="custom-format", pair=pi, pref=PREFS[pi % 3])
        ctx.count("misc:custom-format")
    # localised string through the translated custom-format path
    relations(ctx, "mai 2015", "fr", ABS, formats=["%B %Y"], parts_present=["M", "Y"], kind="custom-format")
    relations(ctx, "12 mai 2015", "fr", ABS, formats=["%d %B %Y"], parts_present=["D", "M", "Y"], kind="custom-format")


def run_shard(ctx, desc):
    import dateparser  # noqa

    PathTap.install()
    ac = AnchorCounter(ANCHORS).start()
    try:
        if desc["part"] == "corpus":
            run_corpus(ctx, desc)
        elif desc["part"] == "generated":
            run_generated(ctx, desc)
        else:
            run_misc(ctx)
    finally:
        ac.stop()
    for k, v in ac.counts.items():
        ctx.count("anchor:" + k, v)


def finalize(merged, tier, seed):
    c = merged["counters"]
    inc = []
    if c.get("strict_non_none", 0) < 300:
        inc.append("only %d strict results were non-None" % c.get("strict_non_none", 0))
    if c.get("strict_none_by_construction", 0) < 300:
        inc.append("too few by-construction None assertions")
    if c.get("corpus:strings", 0) < 400:
        inc.append("corpus part covered only %d strings" % c.get("corpus:strings", 0))
    if "anchor:parser._check_strict_parsing" in c and c["anchor:parser._check_strict_parsing"] < 1000:
        inc.append("_check_strict_parsing hardly executed")
    return {"inconclusive": inc, "anchors_hit": {k[7:]: v for k, v in c.items() if k.startswith("anchor:")}}


def replay_case(ctx, v):
    c = v["case"]
    relations(ctx, c["string"], c["language"], c.get("parsers") or ABS, c.get("formats"), c.get("parts_present"),
              c.get("kind", "corpus"), pair=c.get("pair", 0), pref=c.get("pref"))
