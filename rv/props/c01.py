"""C01 — standard absolute formats and epoch numbers round-trip exactly."""
import calendar
import os
from datetime import datetime, timedelta, timezone

from ..gen.common import (BOUNDARY_TIMES, BOUNDARY_US, DT_MAX, DT_MIN, MA, MN, WN, leap_days,
                          month_end_datetimes, rand_datetime, rng, zone_pools, table_offset_of)
from ..hooks import AnchorCounter
from ..monitors import PathTap
from ..util import iso, parse_iso, unjson_settings

LEVEL = "exploration"
RULE = ("datetimes from six strata (uniform over years 1..9999, years<1000, month ends x boundary "
        "times x boundary microseconds, leap days, 1900-2100, every day of 13 boundary years in "
        "thorough) x 21 renderings (ISO date/date-time with space or T, fractions of 1-6 digits, "
        "RFC-2822 with/without weekday and +0000, English long/abbreviated month forms), each under two "
        "random PREFER_*/RELATIVE_BASE combinations, languages=['en'], autodetection, and the plain call parse(s) without any "
        "argument (alone or right after a plain call on a string in another language); epochs: "
        "10-digit numbers (boundaries, powers of two, uniform) with 0/3/6 extra digits, optional '-', "
        "TIMEZONE from IANA names, table abbreviations, offsets and 'local' under TZ=. Oracle: field "
        "copy truncated to the written precision / integer epoch arithmetic + pytz or table offset. "
        "non-trivial distinct = distinct (rendering, datetime) or (epoch literal, zone) whose expected "
        "date differs from the reference date and whose accepted parser (path tap) is the anchored one.")
ASSUMPTIONS = ["pytz is the zone database (it is the library's own)",
               "negative epoch with ms/us suffix: either reading (suffix added forward = pinned by the "
               "repository's test, or whole literal negative) is accepted; which one was seen is recorded"]
TIMEOUT = {"quick": 600, "thorough": 3600}

ANCHORS = [("dateparser.parser", "_parser.__init__"), ("dateparser.parser", "_parser._parse"),
           ("dateparser.parser", "tokenizer.tokenize"), ("dateparser.parser", "_time_parser.__call__"),
           ("dateparser.utils.strptime", "strptime"), ("dateparser.date", "sanitize_date"),
           ("dateparser.date", "get_date_from_timestamp")]


def y4(d):
    return "%04d" % d.year


def h12(d):
    return (d.hour % 12) or 12


def ap(d):
    return "AM" if d.hour < 12 else "PM"


def _date(d):
    return "%s-%02d-%02d" % (y4(d), d.month, d.day)


def _hms(d):
    return "%02d:%02d:%02d" % (d.hour, d.minute, d.second)


def _frac(d, k):
    return ("%06d" % d.microsecond)[:k]


F = {
    "iso_date": (lambda d: _date(d), "day"),
    "iso_dt_space": (lambda d: "%s %s" % (_date(d), _hms(d)), "sec"),
    "iso_dt_T": (lambda d: "%sT%s" % (_date(d), _hms(d)), "sec"),
    "iso_dt_space_min": (lambda d: "%s %02d:%02d" % (_date(d), d.hour, d.minute), "min"),
    "iso_dt_T_min": (lambda d: "%sT%02d:%02d" % (_date(d), d.hour, d.minute), "min"),
    "rfc2822": (lambda d: "%s, %02d %s %s %s" % (WN[d.weekday()][:3], d.day, MA[d.month - 1], y4(d), _hms(d)), "sec"),
    "rfc2822_nowd": (lambda d: "%d %s %s %s" % (d.day, MA[d.month - 1], y4(d), _hms(d)), "sec"),
    "rfc2822_utc": (lambda d: "%s, %02d %s %s %s +0000" % (WN[d.weekday()][:3], d.day, MA[d.month - 1], y4(d), _hms(d)), "sec+0"),
    "long_mdy": (lambda d: "%s %d, %s" % (MN[d.month - 1], d.day, y4(d)), "day"),
    "long_dmy": (lambda d: "%d %s %s" % (d.day, MN[d.month - 1], y4(d)), "day"),
    "abbr_dmy": (lambda d: "%d %s %s" % (d.day, MA[d.month - 1], y4(d)), "day"),
    "abbr_mdy_12h": (lambda d: "%s %d, %s %d:%02d %s" % (MA[d.month - 1], d.day, y4(d), h12(d), d.minute, ap(d)), "min"),
    "long_wd_24h": (lambda d: "%s, %s %d, %s %s" % (WN[d.weekday()], MN[d.month - 1], d.day, y4(d), _hms(d)), "sec"),
    "long_dmy_12h_sec": (lambda d: "%d %s %s %d:%02d:%02d %s" % (d.day, MN[d.month - 1], y4(d), h12(d), d.minute, d.second, ap(d)), "sec"),
    "long_mdy_24h_min": (lambda d: "%s %d, %s %02d:%02d" % (MN[d.month - 1], d.day, y4(d), d.hour, d.minute), "min"),
}
# English month forms with a fraction of a second, 24-hour and 12-hour (fraction + AM/PM is its own path in the parser),
# RFC form with fraction, ISO date-time with 'T' and a 'Z' / numeric UTC designator
F["long_mdy_12h_frac3"] = (lambda d: "%s %d, %s %d:%02d:%02d.%s %s" % (MN[d.month - 1], d.day, y4(d), h12(d), d.minute, d.second,
                                                                      _frac(d, 3), ap(d)), "f3")
F["abbr_dmy_12h_frac6"] = (lambda d: "%d %s %s %d:%02d:%02d.%s %s" % (d.day, MA[d.month - 1], y4(d), h12(d), d.minute, d.second,
                                                                     _frac(d, 6), ap(d)), "f6")
F["long_dmy_24h_frac6"] = (lambda d: "%d %s %s %s.%s" % (d.day, MN[d.month - 1], y4(d), _hms(d), _frac(d, 6)), "f6")
F["rfc2822_frac3"] = (lambda d: "%s, %02d %s %s %s.%s" % (WN[d.weekday()][:3], d.day, MA[d.month - 1], y4(d), _hms(d), _frac(d, 3)),
                      "f3")
for _k in range(1, 7):
    F["iso_dt_space_frac%d" % _k] = ((lambda k: lambda d: "%s %s.%s" % (_date(d), _hms(d), _frac(d, k)))(_k), "f%d" % _k)
    F["iso_dt_T_frac%d" % _k] = ((lambda k: lambda d: "%sT%s.%s" % (_date(d), _hms(d), _frac(d, k)))(_k), "f%d" % _k)


def trunc(d, p):
    if p == "day":
        return d.replace(hour=0, minute=0, second=0, microsecond=0)
    if p == "min":
        return d.replace(second=0, microsecond=0)
    if p in ("sec", "sec+0"):
        return d.replace(microsecond=0)
    if p[0] == "f":
        k = int(p[1])
        return d.replace(microsecond=int(_frac(d, k).ljust(6, "0")))
    raise ValueError(p)


FOREIGN = ["12 mai 2015", "3. Januar 2011", "12 мая 2015 г.", "2015年5月12日", "hace 2 semanas", "il y a 3 jours", "١٢ مايو ٢٠١٥",
           "12 Mayıs 2015", "vor 2 Tagen", "02/03/2015", "not a date", "12 พฤษภาคม 2015"]
FULL_YEARS = [1, 4, 100, 400, 999, 1000, 1582, 1600, 1900, 2000, 2024, 2100, 9999]
N_DATES = {"quick": 2400, "thorough": 48000}
N_EPOCH = {"quick": 6000, "thorough": 120000}
LOCAL_TZS = ["America/New_York", "Asia/Kolkata", "Australia/Lord_Howe", "UTC"]


def shards(tier, seed):
    out = []
    nd = 14
    for i in range(nd):
        out.append({"part": "dates", "i": i, "n": N_DATES[tier] // nd})
    if tier == "thorough":
        for y in FULL_YEARS:
            out.append({"part": "fullyear", "year": y})
    ne = 6
    for i in range(ne):
        out.append({"part": "epoch", "i": i, "n": N_EPOCH[tier] // ne})
    for tz in LOCAL_TZS:
        out.append({"part": "epoch_local", "tz": tz, "n": N_EPOCH[tier] // 24})
    return out


def env_for(desc):
    if desc.get("part") == "epoch_local":
        return {"TZ": desc["tz"]}
    return None


def gen_datetimes(rnd, n):
    out = []
    out += [rand_datetime(rnd) for _ in range(n * 25 // 100)]
    for _ in range(n * 15 // 100):
        out.append(datetime(rnd.randrange(1, 1000), rnd.randrange(1, 13), 1)
                   + timedelta(days=rnd.randrange(28), seconds=rnd.randrange(86400),
                               microseconds=rnd.randrange(10 ** 6)))
    out += month_end_datetimes(rnd, n * 25 // 100)
    out += leap_days(rnd, n * 10 // 100)
    while len(out) < n:
        out.append(rand_datetime(rnd, datetime(1900, 1, 1), datetime(2100, 12, 31)))
    # always-present boundary stratum, whatever the seed
    out += [DT_MIN, DT_MAX, datetime(1, 1, 1, 23, 59, 59, 999999), datetime(9999, 12, 31),
            datetime(1000, 1, 1), datetime(999, 12, 31, 23, 59, 59, 1), datetime(2000, 2, 29, 12, 0, 0, 500)]
    return out


def rand_settings(rnd):
    st = {
        "PREFER_DAY_OF_MONTH": rnd.choice(["current", "first", "last"]),
        "PREFER_MONTH_OF_YEAR": rnd.choice(["current", "first", "last"]),
        "PREFER_DATES_FROM": rnd.choice(["current_period", "past", "future"]),
    }
    if rnd.random() < 0.8:
        st["RELATIVE_BASE"] = rand_datetime(rnd, datetime(1, 1, 2), datetime(9999, 12, 30)).replace(microsecond=0)
    return st


def run_shard(ctx, desc):
    import dateparser  # noqa

    PathTap.install()
    ac = AnchorCounter(ANCHORS).start()
    try:
        if desc["part"] == "dates":
            rnd = rng(ctx.seed, "C01", desc["i"])
            run_dates(ctx, rnd, gen_datetimes(rnd, desc["n"]), auto_every=10)
        elif desc["part"] == "fullyear":
            rnd = rng(ctx.seed, "C01y", desc["year"])
            y = desc["year"]
            ds = []
            d = datetime(y, 1, 1)
            i = 0
            while d.year == y:
                h, mi, s = BOUNDARY_TIMES[i % len(BOUNDARY_TIMES)] if i % 3 else (rnd.randrange(24), rnd.randrange(60), rnd.randrange(60))
                ds.append(d.replace(hour=h, minute=mi, second=s, microsecond=rnd.choice(BOUNDARY_US + [rnd.randrange(10 ** 6)])))
                i += 1
                if d.month == 12 and d.day == 31:
                    break
                d += timedelta(days=1)
            run_dates(ctx, rnd, ds, auto_every=25, renderings_per=6)
        elif desc["part"] == "epoch":
            run_epochs(ctx, rng(ctx.seed, "C01e", desc["i"]), desc["n"], local=None)
        else:
            run_epochs(ctx, rng(ctx.seed, "C01l", LOCAL_TZS.index(desc["tz"])), desc["n"], local=desc["tz"])
        ctx.reask()
    finally:
        ac.stop()
    for k, v in ac.counts.items():
        ctx.count("anchor:" + k, v)
    for u in ac.unresolved:
        ctx.count("anchor_unresolved:" + u)


def check_date_case(ctx, name, d, st, mode):
    """One boundary call + oracle.  Returns True if it took part as an on-path case."""
    import dateparser

    ctx.remember(check_date_case, name, d, st, mode)
    f, p = F[name]
    s = f(d)
    exp = trunc(d, p)
    kw = {"settings": st}
    if mode == "en":
        kw["languages"] = ["en"]
    elif mode.startswith("plain"):
        # the everyday call: no languages, no settings (the library's shared default parser); optionally right after a
        # plain call on a string in another language (what a long-running process interleaves)
        kw = {}
        if mode != "plain":
            try:
                dateparser.parse(mode[6:])
            except Exception:
                ctx.count("plain_disturber:raised(C02's subject)")
            ctx.count("plain_disturber_calls")
    PathTap.reset()
    try:
        r = dateparser.parse(s, **kw)
    except Exception as e:  # totality is C02's, but an escape here is also a wrong answer
        r = e
    path = PathTap.accepted("absolute-time")
    ctx.ran()
    case = {"kind": "date", "rendering": name, "string": s, "d": iso(d), "settings": st, "mode": mode}
    ok = isinstance(r, datetime)
    if ok and p == "sec+0":
        ok = r.tzinfo is not None and r.utcoffset() == timedelta(0) and r.replace(tzinfo=None) == exp
    elif ok:
        ok = r.tzinfo is None and r == exp
    if not ok:
        ctx.violation(case, r, exp, "date-roundtrip",
                      {"rendering": name, "mode": mode, "year_lt_1000": d.year < 1000, "path": path})
        return False
    if path != "absolute-time":
        ctx.count("off_path:%s" % path)
        return False
    ctx.count("on_path:absolute-time")
    ref = st.get("RELATIVE_BASE")
    if exp.date() != datetime.now().date() and (ref is None or exp.date() != ref.date()):
        ctx.nontrivial(name, iso(d))
    return True


def run_dates(ctx, rnd, ds, auto_every, renderings_per=None):
    names = list(F)
    for i, d in enumerate(ds):
        use = names if renderings_per is None else rnd.sample(names, renderings_per)
        for name in use:
            for rep in range(2):
                st = rand_settings(rnd)
                check_date_case(ctx, name, d, st, "en")
            if (i + names.index(name)) % auto_every == 0:
                check_date_case(ctx, name, d, rand_settings(rnd), "auto")
            if (i + names.index(name)) % auto_every == 1:
                check_date_case(ctx, name, d, {}, rnd.choice(["plain", "plain:" + rnd.choice(FOREIGN)]))
        if i < 2:
            ctx.sample({"d": iso(d), "strings": [F[n][0](d) for n in names[:8]]})


# ------------------------------------------------------------------ epochs
NEG_PARSERS = ["negative-timestamp", "timestamp", "relative-time", "custom-formats", "absolute-time"]
_POOLS = None


def pools():
    global _POOLS
    if _POOLS is None:
        single_iana, single_abbr, dual = zone_pools()
        offs = ["+0530", "-0800", "UTC+3", "UTC-09:30", "GMT+2", "+05:45", "UTC+14:00", "-1200", "UTC+08:45"]
        _POOLS = (single_iana, single_abbr, dual, offs)
    return _POOLS


def epoch_expected(n, suf, neg, zone_kind, zone):
    """Set of acceptable naive wall clocks."""
    import pytz

    us = (int(suf) * (1000 if len(suf) == 3 else 1)) if suf else 0
    secs = -n if neg else n
    base = datetime(1970, 1, 1, tzinfo=timezone.utc) + timedelta(seconds=secs)
    instants = [base + timedelta(microseconds=us)]
    if neg and us:
        instants.append(base - timedelta(microseconds=us))
    out = []
    for inst in instants:
        if zone_kind == "iana":
            out.append(inst.astimezone(pytz.timezone(zone)).replace(tzinfo=None))
        elif zone_kind == "table":
            out.append((inst + table_offset_of(zone)).replace(tzinfo=None))
        elif zone_kind == "dual":
            out.append(inst.astimezone(pytz.timezone(zone)).replace(tzinfo=None))
            out.append((inst + table_offset_of(zone)).replace(tzinfo=None))
        elif zone_kind == "local":
            # TIMEZONE='local' is resolved by tzlocal -> zoneinfo (not pytz): the reference for
            # this case is therefore the stdlib zone database the library itself delegates to
            import zoneinfo

            out.append(inst.astimezone(zoneinfo.ZoneInfo(zone)).replace(tzinfo=None))
    return out


def check_epoch_case(ctx, n, suf, neg, zone_kind, zone, aware, local_tz=None):
    ctx.remember(check_epoch_case, n, suf, neg, zone_kind, zone, aware, local_tz)
    import dateparser

    s = ("-" if neg else "") + str(n) + suf
    st = {"TIMEZONE": "local" if zone_kind == "local" else zone}
    if neg:
        st["PARSERS"] = list(NEG_PARSERS)
    if aware:
        st["RETURN_AS_TIMEZONE_AWARE"] = True
    exps = epoch_expected(n, suf, neg, zone_kind, local_tz if zone_kind == "local" else zone)
    PathTap.reset()
    try:
        r = dateparser.parse(s, settings=st)
    except Exception as e:
        r = e
    path = PathTap.accepted("negative-timestamp" if neg else "timestamp")
    ctx.ran()
    case = {"kind": "epoch", "string": s, "n": n, "suffix": suf, "neg": neg, "zone_kind": zone_kind,
            "zone": zone, "aware": aware, "local_tz": local_tz}
    ok = isinstance(r, datetime)
    if ok and aware:
        ok = r.tzinfo is not None and r.replace(tzinfo=None) in exps
        if ok:
            us = (int(suf) * (1000 if len(suf) == 3 else 1)) if suf else 0
            base = datetime(1970, 1, 1, tzinfo=timezone.utc) + timedelta(seconds=-n if neg else n)
            ok = r in ([base + timedelta(microseconds=us)] + ([base - timedelta(microseconds=us)] if neg else []))
    elif ok:
        ok = r.tzinfo is None and r in exps
    if not ok:
        ctx.violation(case, r, exps, "epoch-instant",
                      {"neg": neg, "suffix_len": len(suf), "zone_kind": zone_kind, "aware": aware, "path": path})
        return
    want = "negative-timestamp" if neg else "timestamp"
    if path != want:
        ctx.count("off_path:%s" % path)
        return
    ctx.count("on_path:%s" % want)
    if neg and suf and int(suf):
        ctx.count("neg_suffix_reading:%s" % ("forward" if r.replace(tzinfo=None) == exps[0] else "whole-literal"))
    ctx.nontrivial("epoch", s, zone, aware)
    ctx.sample({"epoch": s, "settings": st, "result": iso(r)}, limit=2)


def run_epochs(ctx, rnd, n, local):
    import pytz

    single_iana, single_abbr, dual, offs = pools()
    fixed_n = [10 ** 9, 10 ** 10 - 1, 2 ** 30, 2 ** 31 - 1, 2 ** 31, 2 ** 32, 2 ** 33, 1234567890, 1000000000 + 86399]
    fixed_suf = ["", "000", "999", "000000", "000001", "999999", "001", "500000"]
    for i in range(n):
        k = rnd.random()
        nn = rnd.choice(fixed_n) if k < 0.2 else (rnd.randrange(10 ** 9, 10 ** 10) if k < 0.6 else rnd.randrange(10 ** 9, 2 * 10 ** 9))
        suf = rnd.choice(fixed_suf) if rnd.random() < 0.4 else rnd.choice(["", "%03d" % rnd.randrange(1000), "%06d" % rnd.randrange(10 ** 6)])
        neg = rnd.random() < 0.3
        if local:
            check_epoch_case(ctx, nn, suf, neg, "local", "local", False, local_tz=local)
            continue
        zk = rnd.random()
        if zk < 0.55:
            kind, zone = "iana", rnd.choice(single_iana)
        elif zk < 0.75:
            kind, zone = "table", rnd.choice(single_abbr)
        elif zk < 0.9:
            kind, zone = "table", rnd.choice(offs)
        else:
            kind, zone = "dual", rnd.choice(dual)
        aware = rnd.random() < 0.2
        if aware and kind in ("iana", "dual"):
            # aware offsets are only claimed where the wall clock is unambiguous in the zone
            tz = pytz.timezone(zone)
            secs = -nn if neg else nn
            try:
                wall = (datetime(1970, 1, 1, tzinfo=timezone.utc) + timedelta(seconds=secs)).astimezone(tz).replace(tzinfo=None)
                tz.localize(wall, is_dst=None)
            except Exception:
                aware = False
            if kind == "dual":
                aware = False
        check_epoch_case(ctx, nn, suf, neg, kind, zone, aware)


def finalize(merged, tier, seed):
    c = merged["counters"]
    inc = []
    if c.get("on_path:absolute-time", 0) < 1000:
        inc.append("absolute-time path reached only %d times" % c.get("on_path:absolute-time", 0))
    if c.get("on_path:timestamp", 0) < 200 or c.get("on_path:negative-timestamp", 0) < 50:
        inc.append("timestamp paths reached too rarely (%d / %d)" % (
            c.get("on_path:timestamp", 0), c.get("on_path:negative-timestamp", 0)))
    anchors = {k[7:]: v for k, v in c.items() if k.startswith("anchor:")}
    return {"inconclusive": inc, "anchors_hit": anchors}


def replay_case(ctx, v):
    PathTap.install()
    c = v["case"]
    if c["kind"] == "date":
        st = unjson_settings(c["settings"])
        check_date_case(ctx, c["rendering"], parse_iso(c["d"]), st, c["mode"])
    else:
        if c["zone_kind"] == "local" and os.environ.get("TZ") != c["local_tz"]:
            os.environ["TZ"] = c["local_tz"]
            import time
            time.tzset()
        check_epoch_case(ctx, c["n"], c["suffix"], c["neg"], c["zone_kind"], c["zone"], c["aware"], c.get("local_tz"))
