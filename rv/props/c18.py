"""C18 — whitespace noise and the digit script never change what a string parses to."""
import unicodedata
from datetime import datetime

from ..gen.common import corpus, rng
from ..hooks import AnchorCounter
from ..oracles import vocab
from ..util import iso

LEVEL = "exploration"
RULE = ("corpus strings (language pinned when the test row names one, autodetection otherwise) and generated dates in every "
        "language ('D <own month> YYYY HH:MM', numeric 'DD.MM.YYYY HH:MM', 'YYYY-MM-DD', relative phrase of the language) x "
        "rewritings: pad both ends; double every space; tab / newline / NBSP for every space; mixed run ' \\t\\xa0 '; leading "
        "newline + trailing tab/newline; trailing ':' (only if the string does not end in one); and, for strings with ASCII "
        "digits, every digit replaced by the same digit of another Unicode Nd block (plus one combined whitespace+digit rewriting per string; 15% of the strings under NORMALIZE=False) (quick: Arabic-Indic, Persian, Devanagari, "
        "Bengali, Thai, Tibetan, Myanmar, full-width + 4 seeded random blocks; thorough: all blocks). Oracle: (date, period, "
        "locale) [also for 21 (string, date_formats) pairs incl. literal punctuation tails, with the formats passed to both runs] equal to the un-rewritten run in the same process (5% also in the opposite order). non-trivial distinct = "
        "distinct (string, language, rewriting) whose un-rewritten run produced a date.")
ASSUMPTIONS = ["digit substitution is applied to every ASCII digit of the string (one script per string)",
               "C03 guarantees the two runs do not influence each other; 5% of pairs are also run in the opposite order"]
TIMEOUT = {"quick": 900, "thorough": 5400}
ANCHORS = [("dateparser.date", "sanitize_spaces"), ("dateparser.date", "sanitize_date"),
           ("dateparser.languages.locale", "Locale._translate_numerals"), ("dateparser.utils", "strip_braces")]
B = datetime(2012, 11, 13, 14, 15, 16)
WS = {
    "pad": lambda s: "  " + s + "   ",
    "double": lambda s: s.replace(" ", "  "),
    "tab": lambda s: s.replace(" ", "\t"),
    "nl": lambda s: s.replace(" ", "\n"),
    "nbsp": lambda s: s.replace(" ", "\xa0"),
    "mixed": lambda s: s.replace(" ", " \t\xa0 "),
    "padnl": lambda s: "\n" + s + "\t\n",
    "colon": lambda s: s if s.endswith(":") else s + ":",
}
FIXED_BLOCKS = [0x660, 0x6F0, 0x966, 0x9E6, 0xE50, 0xF20, 0x1040, 0xFF10]


FORMAT_CASES = [
    ("en", "12/05/2015 10:30 (UTC)", "%d/%m/%Y %H:%M (UTC)"), ("en", "12 May 2015", "%d %B %Y"), ("en", "May 12, 2015 [final]", "%B %d, %Y [final]"),
    ("en", "2015-05-12 10:30:45", "%Y-%m-%d %H:%M:%S"), ("en", "Tuesday, 12 May 2015", "%A, %d %B %Y"), ("en", "12.05.15", "%d.%m.%y"),
    ("en", "10:30 PM on 12 May 2015", "%I:%M %p on %d %B %Y"), ("en", "05/2015", "%m/%Y"), ("en", "\"12 May 2015\"", "\"%d %B %Y\""),
    ("fr", "12 mai 2015", "%d %B %Y"), ("fr", "mardi 12 mai 2015 (soir)", "%A %d %B %Y (soir)"), ("de", "12. Mai 2015", "%d. %B %Y"),
    ("es", "12 de mayo de 2015", "%d de %B de %Y"), ("ru", "12 мая 2015 г.", "%d %B %Y г."), ("it", "12 maggio 2015 >", "%d %B %Y >"),
    ("en", "2015 132", "%Y %j"), ("en", "12 May", "%d %B"), ("en", "20150512T103045", "%Y%m%dT%H%M%S"), ("en", "12-May-2015", "%d-%b-%Y"),
    ("pt", "12 de maio de 2015 às 10:30", "%d de %B de %Y às %H:%M"), ("nl", "12 mei 2015 (UTC)", "%d %B %Y (UTC)"),
    ("en", "12/05/2015 10:30 \"GMT\"", "%d/%m/%Y %H:%M \"GMT\""), ("en", "on 12 May 2015 at 10:30", "on %d %B %Y at %H:%M"),
    ("en", "12 May 2015 10:30 pm)", "%d %B %Y %I:%M %p)"), ("fr", "le 12 mai 2015 à 10:30", "le %d %B %Y à %H:%M"),
    ("de", "Dienstag, 12. Mai 2015 >", "%A, %d. %B %Y >"), ("en", "Tuesday 12 May 2015 (UTC)", "%A %d %B %Y (UTC)"),
]


def digit_blocks():
    return [c for c in range(0x110000) if unicodedata.category(chr(c)) == "Nd" and unicodedata.digit(chr(c)) == 0 and c != 0x30]


def todig(s, z):
    return "".join(chr(z + int(c)) if c in "0123456789" else c for c in s)


def shards(tier, seed):
    out = [{"part": "formats", "i": 0}]
    out += [{"part": "corpus", "i": i, "k": 10} for i in range(10)]
    out += [{"part": "generated", "i": i, "k": 5} for i in range(5)]
    return out


_P = {}


def parser(lang, norm=True):
    from dateparser.date import DateDataParser

    if (lang, norm) not in _P:
        st = {"RELATIVE_BASE": B}
        if not norm:
            st["NORMALIZE"] = False
        _P[lang, norm] = DateDataParser(languages=[lang], settings=st) if lang else DateDataParser(settings=st)
    return _P[lang, norm]


def outcome(p, s, formats=None):
    try:
        r = p.get_date_data(s, formats)
        if formats:
            # a string that matches one of the caller's formats as written is answered before any language work and carries
            # no locale; what it "parses to" is the date and the period
            return (r["date_obj"], r["period"], None)
        return (r["date_obj"], r["period"], r["locale"])
    except Exception as e:
        return ("EXC", type(e).__name__, None)


def sensitive_steps(a, b, norm):
    """Which steps of sanitize_date treat the two spellings differently (each step applied alone)."""
    import dateparser.date as D

    steps = [("RE_SANITIZE_SKIP", lambda x: D.RE_SANITIZE_SKIP.sub(" ", x)),
             ("RE_SANITIZE_RUSSIAN", lambda x: D.RE_SANITIZE_RUSSIAN.sub(r"\1 ", x)),
             ("RE_SANITIZE_CROATIAN", lambda x: D.RE_SANITIZE_CROATIAN.sub(r"\1.\2.\3 ", x)),
             ("sanitize_spaces", D.sanitize_spaces),
             ("RE_SANITIZE_PERIOD", lambda x: D.RE_SANITIZE_PERIOD.sub("", x)),
             ("RE_SANITIZE_ON", lambda x: D.RE_SANITIZE_ON.sub(r"\1", x)),
             ("RE_TRIM_COLONS", lambda x: D.RE_TRIM_COLONS.sub(r"\1", x)),
             ("RE_SANITIZE_APOSTROPHE", lambda x: D.RE_SANITIZE_APOSTROPHE.sub("'", x))]
    out = []
    for name, f in steps:
        try:
            if norm(f(a)) != norm(f(b)):
                out.append(name)
        except Exception:
            out.append(name + "(raised)")
    return out


def norm_ws(x):
    import regex as re

    return re.sub(r"[\s:]+", " ", x.replace("\xa0", " ")).strip()


def norm_digits(x):
    import regex as re

    x = "".join(str(unicodedata.digit(ch)) if unicodedata.category(ch) == "Nd" else ch for ch in x)
    return re.sub(r"[\s:]+", " ", x.replace("\xa0", " ")).strip()


def classify(s, s2, kind):
    import dateparser.date as D

    norm = norm_ws if kind == "ws" else norm_digits
    try:
        a, b = D.sanitize_date(s), D.sanitize_date(s2)
    except Exception:
        return "sanitize-raised", []
    if norm(a) != norm(b):
        try:
            steps = sensitive_steps(s, s2, norm)
        except Exception:   # the cleaning steps were refactored: the label stays, the step names are unknown
            steps = []
        return "sanitised-forms-differ", steps
    return "differs-after-sanitising", []


def check_string(ctx, rnd, s, lang, blocks, origin, formats=None):
    norm = rnd.random() >= 0.15      # 15% of the strings under NORMALIZE=False (the cleaning steps run before normalisation)
    p = parser(lang, norm)
    if not norm:
        ctx.count("strings_under_NORMALIZE_False")
    base = outcome(p, s, formats)
    ctx.ran()
    if base[0] == "EXC":
        ctx.count("base raised (C02's subject)")
        return
    if base[0] is None:
        ctx.count("base_unparsed")
    rewrites = [("ws", n, f(s)) for n, f in WS.items()]
    if any(c in "0123456789" for c in s):
        rewrites += [("digits", "U+%04X" % z, todig(s, z)) for z in blocks]
        # both at once: a whitespace rewriting of the digit-substituted string
        wn = rnd.choice(sorted(WS))
        z = rnd.choice(blocks)
        rewrites.append(("digits", "%s+U+%04X" % (wn, z), WS[wn](todig(s, z))))
    for kind, name, s2 in rewrites:
        if s2 == s:
            continue
        if rnd.random() < 0.05:
            got = outcome(p, s2, formats)
            base2 = outcome(p, s, formats)
            if base2 != base:
                ctx.violation({"string": s, "language": lang}, base2, base, "same-string-two-results", {"kind": kind})
        else:
            got = outcome(p, s2, formats)
        ctx.ran()
        if got != base:
            label, steps = classify(s, s2, kind)
            ctx.violation({"string": s, "language": lang, "rewriting": name, "rewritten": s2, "origin": origin, "normalize": norm,
                           "formats": formats},
                          got, base, "%s-variance:%s" % ("whitespace" if kind == "ws" else "digit-script", label),
                          {"kind": kind, "rewriting": name if kind == "ws" else "digits", "steps": "+".join(steps),
                           "base_parsed": base[0] is not None})
            continue
        if base[0] is not None:
            ctx.nontrivial(s, lang, name, repr(formats))
            if formats:
                ctx.count("invariant_with_date_formats")
            ctx.count("invariant:%s" % (name if kind == "ws" else "digits"))
        else:
            ctx.count("invariant_unparsed")


def gen_strings(lang):
    """Generated dates of one language from its own vocabulary (read as data)."""
    info = vocab.locale_info(lang, lang)
    out = []
    mons = [w for k in vocab.MONTHS for w in (info.get(k) or [])[:1] if isinstance(w, str)]
    for i, w in enumerate(mons[:4]):
        out.append("%d %s %d %02d:%02d" % (3 + 7 * i, w, 2009 + i, 9 + i, 5 * i))
        out.append("%s %d, %d" % (w, 12 + i, 2015))
    out += ["24.03.2019. 22:22", "24.03.2019. u 22:22", "12.05.2015 10:45", "2015-05-12 10:45:30", "09.16.2014", "3/4/2016 5:06 pm",
            "1 2 2003", "10:45", "2015", "1500000000"]
    rel = info.get("relative-type-regex") or {}
    for canon, pats in list(rel.items())[:3]:
        for ptn in pats[:1]:
            if r"(\d+[.,]?\d*)" in ptn and "\\" not in ptn.replace(r"(\d+[.,]?\d*)", ""):
                out.append(ptn.replace(r"(\d+[.,]?\d*)", "3"))
    for canon, words in list((info.get("relative-type") or {}).items())[:2]:
        out += words[:1]
    return out


def run_shard(ctx, desc):
    import dateparser  # noqa

    ac = AnchorCounter(ANCHORS).start()
    rnd = rng(ctx.seed, "C18" + desc["part"], desc["i"])
    allb = digit_blocks()
    try:
        if desc["part"] == "formats":
            # the same invariance when the caller supplies date_formats: the un-rewritten string matches its format as
            # written, the rewritten one only after cleaning (and, for names, translation that keeps the formatting)
            for lang, s, fmt in FORMAT_CASES:
                # domain: date strings (the statement's subject), i.e. strings the selected language parses on its own; a
                # string that only parses because it equals the caller's format literally (foreign literal words, compact
                # forms) is not one, and noise legitimately sends it through the language path where it is unknown
                if outcome(parser(lang, True), s)[0] is None:
                    ctx.count("format_case_skipped:not-a-date-string-without-formats")
                    continue
                blocks = allb if ctx.tier == "thorough" else FIXED_BLOCKS + rnd.sample(allb, 4)
                check_string(ctx, rnd, s, lang, blocks, "formats", formats=[fmt])
                ctx.count("format_cases")
        elif desc["part"] == "corpus":
            rows = corpus()[desc["i"]::desc["k"]]
            if ctx.tier == "quick":
                rows = rnd.sample(rows, min(len(rows), 90))
            for s, fn, lang in rows:
                blocks = allb if ctx.tier == "thorough" else FIXED_BLOCKS + rnd.sample(allb, 4)
                check_string(ctx, rnd, s, lang, blocks, "corpus")
            ctx.sample({"strings": [r[0] for r in rows[:4]], "digit_blocks_total": len(allb)})
        else:
            from dateparser.data.languages_info import language_order

            langs = list(language_order)
            if ctx.tier == "quick":
                langs = langs[:30] + langs[30::6]
            for lang in langs[desc["i"]::desc["k"]]:
                for s in gen_strings(lang):
                    blocks = (allb[::3] if ctx.tier == "thorough" else FIXED_BLOCKS[:4] + rnd.sample(allb, 2))
                    check_string(ctx, rnd, s, lang, blocks, "generated")
                ctx.count("generated_languages")
    finally:
        ac.stop()
    for k, v in ac.counts.items():
        ctx.count("anchor:" + k, v)


def finalize(merged, tier, seed):
    c = merged["counters"]
    inc = []
    inv = sum(v for k, v in c.items() if k.startswith("invariant:"))
    if inv < 3000:
        inc.append("only %d rewritings of parseable strings compared" % inv)
    if c.get("invariant_with_date_formats", 0) < 100:
        inc.append("invariance under caller-supplied formats compared only %d times" % c.get("invariant_with_date_formats", 0))
    if c.get("invariant:digits", 0) < 500:
        inc.append("digit-script rewritings compared only %d times" % c.get("invariant:digits", 0))
    return {"inconclusive": inc, "anchors_hit": {k[7:]: v for k, v in c.items() if k.startswith("anchor:")}}


def replay_case(ctx, v):
    import random

    c = v["case"]
    p = parser(c["language"], c.get("normalize", True))
    base, got = outcome(p, c["string"], c.get("formats")), outcome(p, c["rewritten"], c.get("formats"))
    if got != base:
        kind = v["features"]["kind"]
        label, steps = classify(c["string"], c["rewritten"], kind)
        ctx.violation(c, got, base, "%s-variance:%s" % ("whitespace" if kind == "ws" else "digit-script", label),
                      dict(v["features"], steps="+".join(steps)))
