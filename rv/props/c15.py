"""C15 — Jalali and Hijri dates convert to the right Gregorian date."""
import functools
from datetime import datetime, timedelta

from ..gen.common import rng
from ..hooks import AnchorCounter

LEVEL = "exploration"
RULE = ("Jalali years 1200..1500: every month and every valid day (incl. Esfand 30 in leap years); thorough = all ~110k days in "
        "the YYYY/MM/DD spelling plus every 7th year in all spellings, quick = every 23rd year in all spellings. Spellings: "
        "YYYY/MM/DD, YYYY-MM-DD, Persian digits, 'D <month> YYYY' for every listed month-name variant (ASCII and Persian digits), "
        "with every variant of the correct weekday name, spelled-out day (every listed variant, with and without the ordinal "
        "suffix), HH:MM, HH:MM:SS in Persian digits and the 'saat HH va MM daghighe' clock. Hijri 1343..1500 (quick every 9th "
        "year): YYYY/MM/DD, YYYY-MM-DD, DD-MM-YYYY and MM-DD-YYYY for DD>12, with HH:MM sabahan/masa'an. Oracle: direct calls to "
        "convertdate.persian.to_gregorian / hijridate.Hijri.to_gregorian, themselves self-checked (consecutive days map to "
        "consecutive Gregorian days; Jalali year lengths 365/366, Hijri months 28..31 days (hijridate's table has 8 irregular months in 1343-1364) and years 353..356 days). non-trivial distinct = distinct (calendar, spelling, "
        "date).")
ASSUMPTIONS = ["convertdate / hijridate are the reference conversions (outside the parser path)",
               "convertdate.persian.equinox_jd (pure function of the year) is memoised by the harness; an un-memoised sample must agree",
               "Hijri DD-MM-YYYY only for DD > 12 (a first field <= 12 is legitimately the month under the default MDY order: C07)"]
TIMEOUT = {"quick": 900, "thorough": 5400}
ANCHORS = [("dateparser.calendars", "non_gregorian_parser.to_latin"), ("dateparser.calendars", "non_gregorian_parser._get_date_obj"),
           ("dateparser.calendars", "non_gregorian_parser._get_datetime_obj"),
           ("dateparser.calendars.jalali_parser", "jalali_parser._replace_days"),
           ("dateparser.calendars.jalali_parser", "jalali_parser._replace_time"),
           ("dateparser.calendars.hijri_parser", "hijri.to_gregorian")]
PD = "۰۱۲۳۴۵۶۷۸۹"
WDIDX = {"Monday": 0, "Tuesday": 1, "Wednesday": 2, "Thursday": 3, "Friday": 4, "Saturday": 5, "Sunday": 6}


def pers(s):
    return "".join(PD[int(c)] if c.isdigit() and c in "0123456789" else c for c in s)


def shards(tier, seed):
    out = []
    if tier == "thorough":
        ys = list(range(1200, 1501))
        for i in range(12):
            out.append({"part": "jalali", "years": ys[i::12], "full_years": [y for y in ys if y % 7 == 0]})
        hy = list(range(1343, 1501))
        for i in range(4):
            out.append({"part": "hijri", "years": hy[i::4]})
    else:
        off = seed % 23
        full = set([y for y in range(1200 + off, 1501, 23)] + [1399, 1403])
        ys = list(range(1200, 1501))          # every year in the numeric spelling, the sampled ones in all spellings
        for i in range(10):
            out.append({"part": "jalali", "years": ys[i::10], "full_years": sorted(full)})
        hy = [y for y in range(1343 + seed % 9, 1501, 9)] + [1443, 1500]
        for i in range(3):
            out.append({"part": "hijri", "years": hy[i::3]})
    out.append({"part": "unmemoised"})
    out.append({"part": "mixed"})
    return out


def memoise():
    from convertdate import persian

    if not hasattr(persian.equinox_jd, "cache_info"):
        persian.equinox_jd = functools.lru_cache(None)(persian.equinox_jd)


_JV = None


def jalali_vocab():
    """(months [(name, (index, length, [spellings]))], weekdays {English: [spellings]}, spelled days {n: [spellings]}).
    The authority is the copy committed with the checks (the spellings listed at the pinned commit): a tree under test that
    drops a spelling or files it under another month must not take the expectation with it. Spellings the tree lists in
    addition are appended under the tree's own index, so new vocabulary is exercised too."""
    global _JV
    if _JV is None:
        import json
        import os

        with open(os.path.join(os.path.dirname(os.path.dirname(os.path.abspath(__file__))), "data", "jalali_vocab.json"),
                  encoding="utf-8") as f:
            d = json.load(f)
        months = [(k, (v[0], v[1], list(v[2]))) for k, v in d["months"]]
        wds = {k: list(v) for k, v in d["weekdays"].items()}
        letters = {int(k): list(v) for k, v in d["number_letters"].items()}
        try:
            from dateparser.calendars.jalali_parser import jalali_parser as jp

            known = {sp for _, v in months for sp in v[2]}
            for _, v in jp._months.items():
                for sp in v[2]:
                    if sp not in known and 1 <= v[0] <= 12:
                        months[v[0] - 1][1][2].append(sp)
            for k, v in jp._weekdays.items():
                if k in wds:
                    wds[k] += [sp for sp in v if sp not in wds[k] and not any(sp in o for o in wds.values())]
            for k, v in jp._number_letters.items():
                if int(k) in letters:
                    letters[int(k)] += [sp for sp in v if sp not in letters[int(k)] and not any(sp in o for o in letters.values())]
        except Exception:
            pass
        _JV = (months, wds, letters)
    return _JV


def jalali_forms(y, m, d, g, full, rnd):
    months, wds, letters = jalali_vocab()
    forms = [("num/", g, "%04d/%02d/%02d" % (y, m, d))]
    if d > 12:
        # month first, the library's default field order; unambiguous because the second field cannot be a month
        forms.append(("mm/dd/yyyy", g, "%02d/%02d/%04d" % (m, d, y)))
    if not full:
        return forms
    forms += [("num-", g, "%04d-%02d-%02d" % (y, m, d)), ("num-persian-digits", g, pers("%04d/%02d/%02d" % (y, m, d)))]
    names = months[m - 1][1][2]
    for nm in names:
        forms.append(("month-name", g, "%d %s %d" % (d, nm, y)))
        forms.append(("month-name-first", g, "%s %d %d" % (nm, d, y)))
        forms.append(("month-name-persian-digits", g, pers("%d %s %d" % (d, nm, y))))
    mname = rnd.choice(names)
    wd_en = [k for k, v in WDIDX.items() if v == g.weekday()][0]
    for wv in wds[wd_en]:
        forms.append(("weekday", g, "%s %d %s %d" % (wv, d, mname, y)))
        forms.append(("weekday-persian-digits", g, pers("%s %d %s %d" % (wv, d, mname, y))))
    for sv in letters[d]:
        forms.append(("spelled-day", g, "%s %s %d" % (sv, mname, y)))
        forms.append(("spelled-day-ordinal", g, "%sم %s %d" % (sv, mname, y)))
    forms.append(("time-hhmm", g.replace(hour=10, minute=45), "%d %s %d 10:45" % (d, mname, y)))
    forms.append(("time-words", g.replace(hour=10, minute=45), "%d %s %d ساعت 10 و 45 دقیقه" % (d, mname, y)))
    forms.append(("time-hms-persian-digits", g.replace(hour=19, minute=5, second=30), pers("%d %s %d 19:05:30" % (d, mname, y))))
    # a fraction of a second is part of the clock time as well
    forms.append(("time-hms-fraction", g.replace(hour=10, minute=58, second=4, microsecond=500000), "%04d/%02d/%02d 10:58:04.5" % (y, m, d)))
    forms.append(("time-hms-fraction6", g.replace(hour=0, minute=0, second=1, microsecond=123456),
                  "%d %s %d 00:00:01.123456" % (d, mname, y)))
    # the worded clock with one-digit components, with seconds, in Persian digits
    forms.append(("time-words-1digit", g.replace(hour=9, minute=5), "%d %s %d ساعت 9 و 5 دقیقه" % (d, mname, y)))
    forms.append(("time-words-mixed", g.replace(hour=9, minute=5), "%d %s %d ساعت 9 و 05 دقیقه" % (d, mname, y)))
    forms.append(("time-words-seconds", g.replace(hour=11, minute=1, second=7), "%d %s %d ساعت 11 و 01 دقیقه و 7 ثانیه" % (d, mname, y)))
    forms.append(("time-words-persian-digits", g.replace(hour=7, minute=5), pers("%04d/%02d/%02d ساعت 7 و 05 دقیقه" % (y, m, d))))
    # both digit scripts in one string, in either order
    forms.append(("mixed-digits-latin-first", g, "%d %s %s" % (d, mname, pers("%d" % y))))
    forms.append(("mixed-digits-persian-first", g, "%s %s %d" % (pers("%d" % d), mname, y)))
    forms.append(("mixed-digits-time", g.replace(hour=19, minute=5), "%04d/%02d/%02d %s" % (y, m, d, pers("19:05"))))
    return forms


def check(ctx, cal, kind, exp, s):
    from dateparser.calendars.hijri import HijriCalendar
    from dateparser.calendars.jalali import JalaliCalendar

    ctx.remember(check, cal, kind, exp, s)
    try:
        r = (JalaliCalendar if cal == "jalali" else HijriCalendar)(s).get_date()
        r = r["date_obj"] if r else None
    except Exception as e:
        r = e
    ctx.ran()
    if r != exp:
        ctx.violation({"calendar": cal, "spelling": kind, "string": s}, r, exp, "calendar-conversion",
                      {"calendar": cal, "spelling": kind, "day_ge_29": exp.day >= 29 if isinstance(exp, datetime) else None})
        return False
    ctx.nontrivial(cal, kind, s)
    ctx.count("%s:%s" % (cal, kind))
    return True


def run_jalali(ctx, desc):
    from convertdate import persian

    rnd = rng(ctx.seed, "C15", desc["years"][0] if desc["years"] else 0)
    for yi, y in enumerate(desc["years"]):
        full = y in desc["full_years"]
        prev = None
        ylen = 0
        for m in range(1, 13):
            ml = persian.month_length(y, m)
            for d in range(1, ml + 1):
                g = datetime(*persian.to_gregorian(y, m, d))
                # oracle self-check: consecutive Jalali days are consecutive Gregorian days
                if prev is not None and g - prev != timedelta(days=1):
                    ctx.inconclusive.append("reference converter not monotone at Jalali %d/%d/%d" % (y, m, d))
                    return
                prev = g
                ylen += 1
                for kind, exp, s in jalali_forms(y, m, d, g, full, rnd):
                    check(ctx, "jalali", kind, exp, s)
        if ylen not in (365, 366):
            ctx.inconclusive.append("reference Jalali year %d has %d days" % (y, ylen))
            return
        ctx.count("jalali_years")
        ctx.count("jalali_leap_years" if ylen == 366 else "jalali_common_years")
        if yi == 0:
            ctx.sample({"jalali_year": y, "full_spellings": full,
                        "forms": [f[2] for f in jalali_forms(y, 12, 29, datetime(*persian.to_gregorian(y, 12, 29)), True, rnd)][:8]})


def run_hijri(ctx, desc):
    from hijridate import Hijri

    for yi, y in enumerate(desc["years"]):
        prev = None
        ylen = 0
        for m in range(1, 13):
            ml = Hijri(y, m, 1).month_length()
            if ml not in (28, 29, 30, 31):  # hijridate's Umm al-Qura table has a few 28- and 31-day months (1343-1364)
                ctx.inconclusive.append("reference Hijri month %d/%d has %d days" % (y, m, ml))
                return
            for d in range(1, ml + 1):
                g = datetime(*Hijri(y, m, d).to_gregorian().datetuple())
                if d > 30:
                    # a Hijri month has 29 or 30 days; hijridate's table lists three 31-day months (1345/5, 1348/11,
                    # 1349/11).  Their 31st day is an artefact of the reference table, not a "valid Hijri date"
                    # in the statement's sense: advance the self-check but do not assert it.
                    ctx.count("hijri_day31_of_reference_table_skipped")
                    if prev is not None and g - prev != timedelta(days=1):
                        ctx.inconclusive.append("reference converter not monotone at Hijri %d/%d/%d" % (y, m, d))
                        return
                    prev = g
                    ylen += 1
                    continue
                if prev is not None and g - prev != timedelta(days=1):
                    ctx.inconclusive.append("reference converter not monotone at Hijri %d/%d/%d" % (y, m, d))
                    return
                prev = g
                ylen += 1
                forms = [("num/", g, "%04d/%02d/%02d" % (y, m, d)), ("num-", g, "%04d-%02d-%02d" % (y, m, d)),
                         ("time-am", g.replace(hour=9, minute=5), "%04d/%02d/%02d 09:05 صباحاً" % (y, m, d)),
                         ("time-pm", g.replace(hour=21, minute=5), "%04d/%02d/%02d 09:05 مساءً" % (y, m, d)),
                         ("time-hms-fraction", g.replace(hour=10, minute=58, second=4, microsecond=500000),
                          "%04d/%02d/%02d 10:58:04.5" % (y, m, d)),
                         ("time-hms", g.replace(hour=23, minute=59, second=59), "%04d-%02d-%02d 23:59:59" % (y, m, d))]
                if d > 12:
                    forms.append(("dd-mm-yyyy", g, "%02d-%02d-%04d" % (d, m, y)))
                    forms.append(("mm-dd-yyyy", g, "%02d-%02d-%04d" % (m, d, y)))
                    forms.append(("mm/dd/yyyy-time", g.replace(hour=9, minute=5), "%02d/%02d/%04d 09:05 صباحاً" % (m, d, y)))
                    forms.append(("dd-mm-yyyy-time", g.replace(hour=21, minute=5), "%02d-%02d-%04d 09:05 مساءً" % (d, m, y)))
                for kind, exp, s in forms:
                    check(ctx, "hijri", kind, exp, s)
        # Umm al-Qura (tabulated) years: months of 29/30 days; 1343, the first tabulated year, has 356 days
        if not 353 <= ylen <= 356:
            ctx.inconclusive.append("reference Hijri year %d has %d days" % (y, ylen))
            return
        ctx.count("hijri_years")
        if yi == 0:
            ctx.sample({"hijri_year": y, "forms": ["%04d/%02d/%02d" % (y, 9, 30), "30-09-%04d 09:05 مساءً" % y]})


def run_mixed(ctx):
    """Both calendars in one process, on the same (year, month, day) numbers, in both orders: a date converted for one
    calendar must not be answered for the other."""
    from convertdate import persian
    from hijridate import Hijri

    rnd = rng(ctx.seed, "C15mixed", 0)
    n = 0
    for y in range(1343, 1501, 1 if ctx.tier == "thorough" else 3):
        for _ in range(2):
            m, d = rnd.randrange(1, 13), rnd.randrange(13, 30)
            if d > Hijri(y, m, 1).month_length() or d > persian.month_length(y, m):
                continue
            gj = datetime(*persian.to_gregorian(y, m, d))
            gh = datetime(*Hijri(y, m, d).to_gregorian().datetuple())
            s = "%04d/%02d/%02d" % (y, m, d)
            order = [("jalali", gj), ("hijri", gh)]
            if n % 2:
                order.reverse()
            for cal, exp in order:
                check(ctx, cal, "mixed:num/", exp, s)
            n += 1
    ctx.count("mixed_calendar_pairs", n)


def run_unmemoised(ctx):
    """A small sample with the astronomical function left alone must agree with the memoised runs' oracle."""
    import importlib
    from convertdate import persian

    if hasattr(persian.equinox_jd, "cache_info"):
        persian.equinox_jd = persian.equinox_jd.__wrapped__
    rnd = rng(ctx.seed, "C15u", 0)
    for _ in range(60):
        y, m = rnd.randrange(1200, 1501), rnd.randrange(1, 13)
        d = rnd.randrange(1, persian.month_length(y, m) + 1)
        g = datetime(*persian.to_gregorian(y, m, d))
        if check(ctx, "jalali", "unmemoised:num/", g, "%04d/%02d/%02d" % (y, m, d)):
            ctx.count("unmemoised_agree")


def run_shard(ctx, desc):
    import dateparser  # noqa
    from dateparser.calendars.hijri import HijriCalendar  # noqa
    from dateparser.calendars.jalali import JalaliCalendar  # noqa

    ac = AnchorCounter(ANCHORS).start()
    try:
        if desc["part"] == "unmemoised":
            run_unmemoised(ctx)
        elif desc["part"] == "mixed":
            memoise()
            run_mixed(ctx)
        else:
            memoise()
            if desc["part"] == "jalali":
                run_jalali(ctx, desc)
            else:
                run_hijri(ctx, desc)
        ctx.reask()
    finally:
        ac.stop()
    for k, v in ac.counts.items():
        ctx.count("anchor:" + k, v)


def finalize(merged, tier, seed):
    c = merged["counters"]
    inc = []
    if c.get("jalali_years", 0) < 301:
        inc.append("Jalali walk covered %d years" % c.get("jalali_years", 0))
    if c.get("hijri_years", 0) < (12 if tier == "quick" else 158):
        inc.append("Hijri walk covered %d years" % c.get("hijri_years", 0))
    if c.get("unmemoised_agree", 0) < 50 and not c.get("violation:calendar-conversion"):
        inc.append("un-memoised sample incomplete")
    if c.get("mixed_calendar_pairs", 0) < 50:
        inc.append("mixed-calendar part covered only %d date pairs" % c.get("mixed_calendar_pairs", 0))
    if not c.get("jalali_leap_years"):
        inc.append("no Jalali leap year (Esfand 30) in the walk")
    return {"inconclusive": inc, "anchors_hit": {k[7:]: v for k, v in c.items() if k.startswith("anchor:")},
            "exhaustive": tier == "thorough"}


def replay_case(ctx, v):
    from convertdate import persian
    from hijridate import Hijri

    memoise()
    c = v["case"]
    exp = v["expected"]
    from ..util import parse_iso

    e = parse_iso(exp["$dt"]) if isinstance(exp, dict) and "$dt" in exp else None
    check(ctx, c["calendar"], c["spelling"], e, c["string"])
