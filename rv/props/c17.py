"""C17 — search_dates is total and its hits are well-formed, in-text, in order."""
import traceback
from datetime import datetime

from ..gen.common import corpus, rng
from ..hooks import AnchorCounter, wrap
from ..monitors import ConservationMonitor
from ..oracles import vocab
from ..util import iso

LEVEL = "exploration"
RULE = ("for each of the 205 languages given explicitly, and for autodetection, texts <= 300 chars assembled from that language's "
        "vocabulary words (months, weekdays, units, relative phrases, skip words), corpus date strings of that language, numeric "
        "dates/times in several scripts, 'D <own month> YYYY', English and neutral filler, joined by ' ', double space, ', ', "
        "'. ', newline or nothing, optional trailing '.', '!', ideographic full stop or space; with and without RELATIVE_BASE; "
        "add_detected_language on/off (quick 12 texts per language, thorough 300). Oracle: no exception; None or a non-empty list "
        "of (str, datetime[, language]) tuples; each substring non-blank; whitespace-insensitive containment and order (scan "
        "pointer); language element among the requested languages; wrong-typed / unknown languages raise exactly TypeError / "
        "ValueError. non-trivial distinct = distinct (text, languages, settings) whose result was a list.")
ASSUMPTIONS = ["containment is judged with all whitespace removed from text and substrings (the statement says 'up to whitespace')"]
TIMEOUT = {"quick": 900, "thorough": 5400}
ANCHORS = [("dateparser.languages.locale", "Locale.translate_search"), ("dateparser.languages.locale", "Locale._simplify_split_align"),
           ("dateparser.languages.locale", "Locale._sentence_split"),
           ("dateparser.search.search", "_ExactLanguageSearch.parse_found_objects"),
           ("dateparser.search.search", "_ExactLanguageSearch.choose_best_split"),
           ("dateparser.search.search", "_ExactLanguageSearch.split_if_not_parsed"),
           ("dateparser.search.text_detection", "FullTextLanguageDetector._best_language")]
FILL = ["The meeting is", "we met", "and then", "xyz", "report", "...", "on", "(see)", "à", "。", "\n", "at", "-", ",", ";",
        "foo bar", "№ 5", "vs.", "e.g.", "—", "«»", "I", "[", "]", "(", ")"]
NUMS = ["12", "2015", "3", "10:45", "1/2/2015", "31.12.99", "٣", "2015-05-12", "12.05.2015", "5", "1999", "23:59:59", "१२", "１２", "0"]
N_TEXTS = {"quick": 24, "thorough": 300}
TAPS = {"splits": [], "best": [], "ts": []}
_RECENT = []     # the last calls made before a case: part of its witness (replayed first)


def install_taps():
    def sp_after(token, args, kwargs, result, exc):
        if exc is None:
            TAPS["splits"].append((args[1] if len(args) > 1 else kwargs.get("item"),
                                   args[2] if len(args) > 2 else kwargs.get("original")))

    def cb_after(token, args, kwargs, result, exc):
        if exc is None:
            TAPS["best"].append(list(result[1]))

    def ts_after(token, args, kwargs, result, exc):
        if exc is None:
            TAPS["ts"].append((list(result[0]), list(result[1])))

    wrap("dateparser.languages.locale", "Locale.translate_search", None, ts_after, name="tap:translate_search")
    wrap("dateparser.search.search", "_ExactLanguageSearch.split_if_not_parsed", None, sp_after, name="tap:split_if_not_parsed")
    wrap("dateparser.search.search", "_ExactLanguageSearch.choose_best_split", None, cb_after, name="tap:choose_best_split")


def shards(tier, seed):
    k = 15
    out = [{"part": "texts", "i": i, "k": k} for i in range(k)]
    out.append({"part": "errors"})
    return out


def words_of(lang):
    info = vocab.locale_info(lang, lang)
    out = []
    for k in vocab.WORD_KEYS + ["skip", "pertain"]:
        out += [w for w in (info.get(k) or []) if isinstance(w, str)]
    for k, v in (info.get("relative-type") or {}).items():
        out += v
    months = [w for k in vocab.MONTHS for w in (info.get(k) or [])[:2] if isinstance(w, str)]
    return out, months


def a_date(rnd, months):
    """One date in one of several common shapes (month name in the language's own words, or all-numeric)."""
    d, m, y = rnd.randrange(1, 29), rnd.randrange(1, 13), rnd.randrange(1990, 2030)
    mn = rnd.choice(months) if months else "May"
    return rnd.choice(["%d %s %d" % (d, mn, y), "%s %d, %d" % (mn, d, y), "%02d/%02d/%d" % (d, m, y), "%d.%d.%d" % (d, m, y),
                       "%d-%02d-%02d" % (y, m, d), "%d-%d-%d" % (d, m, y), "%d %s" % (d, mn), "%s %d" % (mn, y)])


def gen_text(rnd, lang, voc, months, bylang, skips=()):
    parts = []
    for j in range(rnd.randrange(1, 7)):
        c = rnd.random()
        if c < 0.12:
            parts.append(a_date(rnd, months))
        elif c < 0.2:
            # dates joined by one of the language's own connecting words ('and', 'et', 'и' ...), possibly several such
            # groups in one text: the hits must still come back in text order, without overlap
            w = rnd.choice(list(skips) or ["and"])
            parts.append("%s %s %s" % (a_date(rnd, months), w, a_date(rnd, months)))
        elif c < 0.3 and voc:
            parts.append(rnd.choice(voc))
        elif c < 0.45 and bylang.get(lang):
            parts.append(rnd.choice(bylang[lang]))
        elif c < 0.65:
            parts.append(rnd.choice(NUMS))
        elif c < 0.8:
            parts.append("%d %s %d" % (rnd.randrange(1, 29), rnd.choice(months) if months else "May", rnd.randrange(1990, 2030)))
        else:
            parts.append(rnd.choice(FILL))
    joiner = rnd.choice([" ", "  ", ", ", ". ", "\n", "", " ", ", ", ",, ", ".. ", " —— ", ",,", "; "])
    text = joiner.join(parts)[:300]
    if rnd.random() < 0.25:
        text = text + rnd.choice([".", "!", "。", " ", "", "?", "…"])
    return text, parts, joiner


def norm_ws(s):
    import regex as re

    return re.sub(r"\s+", "", s)


def judge(text, langs, adl, r):
    """Return None if the result is well-formed, else (label, detail)."""
    if r is None:
        return None
    if not isinstance(r, list) or not r:
        return "result-shape", "neither None nor a non-empty list: %r" % (r,)
    pos, tn = 0, norm_ws(text)
    for item in r:
        if not isinstance(item, tuple) or len(item) != (3 if adl else 2) or not isinstance(item[0], str) \
                or not isinstance(item[1], datetime):
            return "tuple-shape", repr(item)
        sub = norm_ws(item[0])
        if not sub:
            return "blank-substring", repr(item)
        i = tn.find(sub, pos)
        if i < 0:
            return ("substring-not-in-text" if tn.find(sub) < 0 else "out-of-text-order"), repr(item[0])
        pos = i + len(sub)
        if adl and langs and item[2] not in langs:
            return "language-not-requested", repr(item[2])
        if adl and not langs and not isinstance(item[2], str):
            return "language-element-shape", repr(item[2])
    return None


def lib_frame(e):
    tb = traceback.extract_tb(e.__traceback__)
    lib = [f for f in tb if "/dateparser/" in f.filename and "/rv/" not in f.filename]
    f = lib[-1] if lib else tb[-1]
    return "%s:%s" % (f.filename.split("/")[-1], f.name)


def run_one(text, langs, adl, base):
    from dateparser.search import search_dates

    kw = {}
    # base: False / True (RELATIVE_BASE given) / 2 (RELATIVE_BASE + NORMALIZE off) / 3 (NORMALIZE off only)
    if base in (True, 1, 2):
        kw["settings"] = {"RELATIVE_BASE": datetime(2020, 2, 29, 12, 0)}
    if base in (2, 3):
        kw.setdefault("settings", {})["NORMALIZE"] = False
    TAPS["splits"][:] = []
    TAPS["best"][:] = []
    TAPS["ts"][:] = []
    try:
        return search_dates(text, languages=langs, add_detected_language=adl, **kw), None
    except Exception as e:
        return None, e


def classify_blank():
    import regex as re
    from ..hooks import UNAVAILABLE

    if any(k.startswith("tap:") for k in UNAVAILABLE):
        # the search internals were refactored and the taps that tell the mechanisms apart cannot be installed
        return "unclassified(taps-unavailable)"

    returned_blank = any(any(not norm_ws(s) for s in b) for b in TAPS["best"])
    misaligned = False
    for item, original in TAPS["splits"]:
        if original is None:
            continue
        for sp in [",", "،", "——", "—", "–", ".", " "]:
            pieces = original.split(sp)
            # a punctuation-only piece of the ORIGINAL chunk is paired by index with a piece of the translated chunk
            if len(pieces) > 1 and original.strip(" .,:()[]-'") and any(not pc.strip(" .,:()[]-'") for pc in pieces):
                misaligned = True
    if returned_blank and misaligned:
        return "split-misaligned"
    # translate_search itself paired a non-blank translated chunk with a blank original chunk (token alignment lost
    # when a simplification changes the number of tokens, e.g. zh noon -> '12:00')
    for translated, original in TAPS["ts"]:
        for t, o in zip(translated, original):
            if len(t) > 2 and not norm_ws(o.strip(" .,:()[]-'")):
                return "translate-search-blank-original"
    return "other-path"


def check_text(ctx, text, langs, adl, base, parts=None, joiner=None):
    r, exc = run_one(text, langs, adl, base)
    ctx.ran()
    case = {"text": text, "languages": langs, "add_detected_language": adl, "relative_base": base, "prelude": list(_RECENT)}
    _RECENT.append([text, langs, adl, base])
    del _RECENT[:-2]
    if exc is not None:
        label, feats = "search-raised:%s" % type(exc).__name__, {"exc": type(exc).__name__, "frame": lib_frame(exc)}
        bad = lambda t: run_one(t, langs, adl, base)[1] is not None and type(run_one(t, langs, adl, base)[1]) is type(exc)  # noqa
    else:
        verdict = judge(text, langs, adl, r)
        if verdict is None:
            if r is not None:
                ctx.nontrivial(text, tuple(langs or ()), adl, base)
                ctx.count("hits_wellformed")
                ctx.count("substrings_checked", len(r))
            else:
                ctx.count("none")
            return
        label = verdict[0]
        feats = {"kind": label}
        if label == "blank-substring":
            mech = classify_blank()
            label = "blank-substring:" + mech
        bad = lambda t: (lambda rr: rr[1] is None and (judge(t, langs, adl, rr[0]) or ("",))[0] == verdict[0])(run_one(t, langs, adl, base))  # noqa
    # minimise over the parts the text was assembled from
    small = text
    if parts and joiner is not None:
        cur = list(parts)
        changed = True
        while changed and len(cur) > 1:
            changed = False
            for i in range(len(cur)):
                cand = cur[:i] + cur[i + 1:]
                t = joiner.join(cand)
                if t and bad(t):
                    cur, changed = cand, True
                    break
        small = joiner.join(cur)
    observed = exc if exc is not None else r
    ctx.violation(dict(case, minimised_text=small), observed, "None or well-formed, in-text, ordered hits", label, feats)


def run_texts(ctx, desc):
    from dateparser.data.languages_info import language_order

    rnd = rng(ctx.seed, "C17", desc["i"])
    bylang = {}
    for s, fn, l in corpus():
        if l:
            bylang.setdefault(l, []).append(s)
    langs = list(language_order)[desc["i"]::desc["k"]]
    cons = ConservationMonitor()
    for lang in langs:
        voc, months = words_of(lang)
        skips = [w for w in (vocab.locale_info(lang, lang).get("skip") or []) if isinstance(w, str) and w.strip(" .,;:'-")]
        for t in range(N_TEXTS[ctx.tier]):
            text, parts, joiner = gen_text(rnd, lang, voc, months, bylang, skips)
            base = rnd.random() < 0.5
            if rnd.random() < 0.2:
                base = 2 if base else 3      # the same with accent normalisation off (its own tables inside the locale)
            adl = rnd.random() < 0.5
            check_text(ctx, text, [lang], adl, base, parts, joiner)
            if t % 3 == 0 or ctx.tier == "thorough" and t % 2 == 0:
                check_text(ctx, text, None, adl, base, parts, joiner)
                # the same text again under other selections (the language reported must follow the selection of *this* call)
                other = ["en"] if lang != "en" else ["fr"]
                check_text(ctx, text, other, True, base, parts, joiner)
                check_text(ctx, text, [lang] + other, True, base, parts, joiner)
                ctx.count("same_text_other_selection", 2)
            if len(ctx.samples) < 3:
                ctx.sample({"language": lang, "text": text})
        ctx.count("languages")
        cons.check()
    # fixed stratum: date word at the very start / very end of a sentence in no-word-spacing languages
    if desc["i"] == 0:
        for lang, text in (("th", "เมื่อวานนี้"), ("th", "วันนี้ 12 พฤษภาคม 2015"), ("ko", "어제"), ("zh", "昨天 12:30。明天"),
                           ("ja", "2015年5月12日。昨日"), ("th", "12 พฤษภาคม 2015 เมื่อวาน"), ("lo", "ມື້ວານ"), ("my", "မနေ့က"),
                           ("km", "ម្សិលមិញ"), ("es", "2 año, ..., 2015, Vi, esta hora"), ("en", "."), ("en", ""), ("en", " \n "),
                           ("ru", "с 12 мая 2015 г. по вчера"), ("fr", "le 12 févr. 2015 puis hier."),
                           # texts whose only hits come out of the (known) misaligned split: the list must still be non-empty
                           ("en", "[ Nov ] today"), ("en", "The report is due [ Nov ] today was the reminder"),
                           ("pt", "Publicado [ nov ] hoje pela editora"), ("en", "December next year ,"),
                           ("zh", "中午"), ("en", "( ) yesterday"), ("en", ", today"),
                           # doubled separators attached to date tokens (the hit must keep them as written)
                           ("en", "May 5,, 2014,, June 6,, 2015"), ("fr", "le 5 mai,, 2014.. le 6 juin,, 2015"),
                           ("ru", "5 мая,, 2014,, 6 июня,, 2015"), ("en", "12 May 2015—— 13 May 2015—— 14 May 2015—— 15 May")):
            for adl in (False, True):
                check_text(ctx, text, [lang], adl, True)
    ctx.count("tripwire:settings-drift-events", len(cons.drift))
    for d in cons.drift[:5]:
        ctx.notes.append("settings drift (C03's subject): %s.%s" % (d[0][:8], d[1]))


def run_errors(ctx):
    from dateparser.search import search_dates

    for langs, want in (("en", TypeError), (5, TypeError), ({"en": 1}, TypeError), (["xx"], ValueError), (["en", "zz"], ValueError),
                        (["EN"], ValueError)):
        for text in ("on 12 May 2015", "", "yesterday and today"):
            try:
                search_dates(text, languages=langs)
                got = None
            except Exception as e:
                got = e
            ctx.ran()
            if type(got) is not want:
                ctx.violation({"text": text, "languages": repr(langs)}, got, want.__name__, "wrong-exception-for-bad-languages",
                              {"want": want.__name__})
            else:
                ctx.count("bad_languages_rejected")
                ctx.nontrivial("err", text, repr(langs))


def run_shard(ctx, desc):
    import dateparser  # noqa
    import dateparser.search  # noqa

    install_taps()
    ac = AnchorCounter(ANCHORS).start()
    try:
        if desc["part"] == "texts":
            run_texts(ctx, desc)
        else:
            run_errors(ctx)
    finally:
        ac.stop()
    for k, v in ac.counts.items():
        ctx.count("anchor:" + k, v)


def finalize(merged, tier, seed):
    c = merged["counters"]
    inc = []
    if c.get("languages", 0) < 205:
        inc.append("only %d languages walked" % c.get("languages", 0))
    if c.get("hits_wellformed", 0) < 800:
        inc.append("only %d non-None results judged" % c.get("hits_wellformed", 0))
    if c.get("bad_languages_rejected", 0) < 10 and not c.get("violation:wrong-exception-for-bad-languages"):
        inc.append("error contract not exercised")
    return {"inconclusive": inc, "anchors_hit": {k[7:]: v for k, v in c.items() if k.startswith("anchor:")}}


def replay_case(ctx, v):
    install_taps()
    c = v["case"]
    if c.get("prelude"):
        # history-dependent witnesses need the recorded preceding calls, and need them first
        for t, l, a, b in c["prelude"]:
            run_one(t, l, a, b)
        check_text(ctx, c["text"], c["languages"], c["add_detected_language"], c["relative_base"])
        if ctx.violations:
            return
    check_text(ctx, c.get("minimised_text") or c["text"], c["languages"], c["add_detected_language"], c["relative_base"])
    if not ctx.violations:
        check_text(ctx, c["text"], c["languages"], c["add_detected_language"], c["relative_base"])
