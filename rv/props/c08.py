"""C08 — missing day/month are completed exactly as configured; period is truthful."""
import calendar
from datetime import datetime, timedelta, timezone

from ..gen.common import MA, MN, WN, rng
from ..hooks import AnchorCounter
from ..monitors import PathTap
from ..util import iso, parse_iso

LEVEL = "exploration"
RULE = ("(a) last-day rule: 'Month YYYY' with PREFER_DAY_OF_MONTH=last for every month of the years listed in the "
        "evidence (quick: 400 years covering every century/leap class; thorough: all years 1..9999 = exhaustive); "
        "(b) reference days 28-31/Feb 29 and uniform x target months x all 9 preference pairs x {Month YYYY, Mon YYYY, "
        "MM/YYYY, YYYY, 'D YYYY' / 'Dth of YYYY' (day 13-28 stated, month missing), full date, full date + time} x RETURN_TIME_AS_PERIOD; (c) custom formats %B %Y, %m/%Y, %Y, %b %y "
        "with first/last and four full-date formats, alone or inside a list with 0-2 non-matching formats of other completeness "
        "before and after. Oracle: day = 1 | monthrange | min(ref.day, monthrange); month = 1 | 12 | ref.month; full dates "
        "unchanged; period by construction. non-trivial distinct = distinct (string, reference, preferences) accepted "
        "by the anchored parser (path tap).")
ASSUMPTIONS = ["custom-format path: PREFER_DAY_OF_MONTH='current' takes the system clock's day there (the statement "
               "says 'reference day'; only first/last are asserted on that path)"]
TIMEOUT = {"quick": 600, "thorough": 3600}
ANCHORS = [("dateparser.utils", "set_correct_day_from_settings"), ("dateparser.utils", "set_correct_month_from_settings"),
           ("dateparser.parser", "_parser._correct_for_day"), ("dateparser.parser", "_parser._correct_for_month"),
           ("dateparser.parser", "_parser._get_datetime_obj"), ("dateparser.parser", "_parser._get_period"),
           ("dateparser.date", "parse_with_formats")]
PREFS = ["first", "last", "current"]
FULL_FMTS = ["%d %B %Y", "%Y-%m-%d", "%d/%m/%Y %H:%M", "%A, %d %B %Y"]
DAY_NO_MONTH_FMTS = ["%d %Y", "%Y %d", "%d %y %H:%M"]
NO_DAY_TIME_FMTS = ["%B %Y %H:%M", "%Y %H:%M", "%H:%M %B %Y", "at %I:%M %p in %B %Y"]
# formats offered beside the matching one (kept only when Python's own strptime rejects the string under them): an earlier or
# later non-matching format of different completeness must not influence the completion or the period
DECOYS = ["%B %Y", "%Y", "%m/%Y", "%d.%m.%Y", "%H:%M", "%b %y", "%d %B", "%Y/%m/%d %H:%M:%S", "%B", "%d-%m-%Y", "%A", "%j %Y"]
N_RANDOM = {"quick": 36000, "thorough": 600000}


def years_for(tier):
    if tier == "thorough":
        return list(range(1, 10000))
    ys = set(range(1896, 2106)) | {1, 2, 3, 4, 96, 100, 104, 400, 404, 999, 1000, 1582, 1600, 1700, 1800, 9996, 9999}
    ys |= set(range(100, 10000, 100))
    ys |= set(range(4, 10000, 97))
    return sorted(ys)


def shards(tier, seed):
    k = 10
    out = [{"part": "lastday", "i": i, "k": k} for i in range(k)]
    out += [{"part": "random", "i": i, "n": N_RANDOM[tier] // 6} for i in range(6)]
    return out


def clampday(y, m, d):
    return min(d, calendar.monthrange(y, m)[1])


def expected(c):
    kind, y, m, d = c["kind"], c["y"], c["m"], c.get("d")
    b = parse_iso(c["base"])
    pd, pm, rtp = c["pd"], c["pm"], c["rtp"]

    def day_for(yy, mm):
        return {"first": 1, "last": calendar.monthrange(yy, mm)[1], "current": clampday(yy, mm, b.day)}[pd]

    if kind in ("my", "my_abbr", "my_num"):
        s = {"my": "%s %04d" % (MN[m - 1], y), "my_abbr": "%s %04d" % (MA[m - 1], y), "my_num": "%02d/%04d" % (m, y)}[kind]
        return s, datetime(y, m, day_for(y, m)), "month", None
    if kind == "y":
        em = {"first": 1, "last": 12, "current": b.month}[pm]
        return "%04d" % y, datetime(y, em, day_for(y, em)), "year", None
    if kind in ("dy", "dy_ord"):
        # the day (13..28: cannot be read as a month) and the year are stated, the month is not
        em = {"first": 1, "last": 12, "current": b.month}[pm]
        sfx = "th" if 4 <= d % 100 <= 20 else {1: "st", 2: "nd", 3: "rd"}.get(d % 10, "th")
        s = "%d %04d" % (d, y) if kind == "dy" else "%d%s of %04d" % (d, sfx, y)
        return s, datetime(y, em, d), "day", None
    if kind == "full":
        return "%d %s %04d" % (d, MN[m - 1], y), datetime(y, m, d), "day", None
    if kind == "full_iso":
        return "%04d-%02d-%02d" % (y, m, d), datetime(y, m, d), "day", None
    if kind == "full_time":
        return "%d %s %04d 10:15" % (d, MN[m - 1], y), datetime(y, m, d, 10, 15), "time" if rtp else "day", None
    # custom-format path
    fmt = c["fmt"]
    if fmt in FULL_FMTS:
        hh, mi = (10, 15) if "%H" in fmt else (0, 0)
        dt = datetime(y, m, d, hh, mi)
        s = (fmt.replace("%d", "%02d" % d).replace("%B", MN[m - 1]).replace("%Y", "%04d" % y).replace("%m", "%02d" % m)
             .replace("%H", "10").replace("%M", "15").replace("%A", WN[dt.weekday()]))
        return s, dt, "time" if (rtp and "%H" in fmt) else "day", fmt
    if fmt in DAY_NO_MONTH_FMTS:
        # the day is stated, the month is not: month 1 | 12, day as written, period by the finest part present = day
        em = {"first": 1, "last": 12}[pm]
        hh, mi = (10, 15) if "%H" in fmt else (0, 0)
        yy = y if "%Y" in fmt else (2000 if y % 100 < 69 else 1900) + y % 100
        s = (fmt.replace("%d", "%02d" % d).replace("%Y", "%04d" % y).replace("%y", "%02d" % (y % 100))
             .replace("%H", "10").replace("%M", "15"))
        return s, datetime(yy, em, d, hh, mi), "time" if (rtp and "%H" in fmt) else "day", fmt
    if fmt in NO_DAY_TIME_FMTS:
        # the day (and perhaps the month) is left to the preferences although the format carries a clock time; asking for
        # 'time' as the period changes the period only, never the completion
        hh, mi = 10, 15
        if "%B" in fmt:
            em = m
        else:
            em = {"first": 1, "last": 12}[pm]
        dd = {"first": 1, "last": calendar.monthrange(y, em)[1]}[pd]
        s = fmt.replace("%B", MN[m - 1]).replace("%Y", "%04d" % y).replace("%H", "10").replace("%M", "15").replace("%I", "10") \
            .replace("%p", "AM")
        return s, datetime(y, em, dd, hh, mi), "time" if rtp else ("month" if "%B" in fmt else "year"), fmt
    if fmt == "%Y":
        s = "%04d" % y
        em = {"first": 1, "last": 12}[pm]
        return s, datetime(y, em, {"first": 1, "last": calendar.monthrange(y, em)[1]}[pd]), "year", fmt
    if fmt == "%b %y":
        yy = (2000 if y % 100 < 69 else 1900) + y % 100
        s = "%s %02d" % (MA[m - 1], y % 100)
        return s, datetime(yy, m, {"first": 1, "last": calendar.monthrange(yy, m)[1]}[pd]), "month", fmt
    s = {"%B %Y": "%s %04d" % (MN[m - 1], y), "%m/%Y": "%02d/%04d" % (m, y)}[fmt]
    return s, datetime(y, m, {"first": 1, "last": calendar.monthrange(y, m)[1]}[pd]), "month", fmt


def _matches(s, f):
    try:
        datetime.strptime(s, f)
        return True
    except ValueError:
        return False


def check_case(ctx, c):
    from dateparser.date import DateDataParser

    ctx.remember(check_case, c)
    s, exp, exp_period, fmt = expected(c)
    st = {"RELATIVE_BASE": parse_iso(c["base"]), "PREFER_DAY_OF_MONTH": c["pd"], "PREFER_MONTH_OF_YEAR": c["pm"]}
    if c["rtp"]:
        st["RETURN_TIME_AS_PERIOD"] = True
    PathTap.reset()
    try:
        fmts = None
        if fmt:
            fmts = [f for f in c.get("decoys_before", []) if not _matches(s, f)] + [fmt] + \
                   [f for f in c.get("decoys_after", []) if not _matches(s, f)]
            ctx.count("fmt_list_len:%d" % len(fmts))
        dd = DateDataParser(languages=["en"], settings=st).get_date_data(s, fmts)
        got = (dd["date_obj"], dd["period"])
    except Exception as e:
        got = (e, None)
    ctx.ran()
    path = PathTap.accepted(("raw-format", "custom-formats") if fmt else ("absolute-time",))
    feats = {"kind": c["kind"], "pd": c["pd"], "pm": c["pm"], "y_lt_1000": c["y"] < 1000, "path": path, "fmt": fmt,
             "rtp": bool(c["rtp"])}
    cj = dict(c, string=s)
    if got[0] != exp:
        ctx.violation(cj, got[0], exp, "completion-date", feats)
        return
    if got[1] != exp_period:
        ctx.violation(cj, got[1], exp_period, "completion-period", feats)
        return
    want = ("raw-format", "custom-formats") if fmt else ("absolute-time",)
    if path not in want:
        ctx.count("off_path:%s" % path)
        return
    ctx.count("on_path:%s" % path)
    ctx.count("kind:%s" % c["kind"])
    ctx.nontrivial(s, c["base"], c["pd"], c["pm"], c["rtp"], fmt)
    ctx.sample({"string": s, "base": c["base"], "PREFER_DAY_OF_MONTH": c["pd"], "PREFER_MONTH_OF_YEAR": c["pm"],
                "result": iso(got[0]), "period": got[1]}, limit=2)


def gen_random(rnd):
    y = rnd.choice([rnd.randrange(1, 10000), rnd.randrange(1900, 2100), rnd.choice([1900, 2000, 2100, 1600, 4, 100, 400, 1000, 999])])
    m = rnd.randrange(1, 13)
    by, bm = rnd.randrange(1900, 2100), rnd.randrange(1, 13)
    if rnd.random() < 0.15:
        by, bm, bd = rnd.choice([2000, 2004, 2024, 1996]), 2, 29
    else:
        bd = clampday(by, bm, rnd.choice([28, 29, 30, 31, rnd.randrange(1, 32)]))
    b = datetime(by, bm, bd, rnd.randrange(24), rnd.randrange(60))
    if rnd.random() < 0.15:
        # an aware reference whose own calendar date differs from the UTC date (close to midnight, offset far from 0):
        # "the reference day/month" is the date the reference itself shows
        off = rnd.choice([5, 9, 13, -8, -11, 5.5])
        hour = rnd.choice([0, 1, 2]) if off > 0 else rnd.choice([21, 22, 23])
        b = b.replace(hour=hour, tzinfo=timezone(timedelta(hours=off)))
    kind = rnd.choice(["my", "my_abbr", "my_num", "y", "full", "full_iso", "full_time", "fmt", "fmt", "dy", "dy_ord"])
    c = {"kind": kind, "y": y, "m": m, "base": iso(b), "pd": rnd.choice(PREFS), "pm": rnd.choice(PREFS),
         "rtp": rnd.random() < 0.3}
    if kind in ("y", "dy", "dy_ord") and y < 1000:
        c["y"] = y + 1000   # a bare 1-3 digit number is not a year-only date string
    if kind in ("dy", "dy_ord"):
        c["d"] = rnd.randrange(13, 29)
    if kind in ("full", "full_iso", "full_time"):
        c["d"] = rnd.choice([calendar.monthrange(y, m)[1], rnd.randrange(1, calendar.monthrange(y, m)[1] + 1)])
    if kind == "fmt":
        c["fmt"] = rnd.choice(["%B %Y", "%m/%Y", "%Y", "%b %y"] + FULL_FMTS + DAY_NO_MONTH_FMTS + NO_DAY_TIME_FMTS)
        if c["fmt"] in NO_DAY_TIME_FMTS:
            c["rtp"] = rnd.random() < 0.5
        c["pd"], c["pm"] = rnd.choice(["first", "last"]), rnd.choice(["first", "last"])
        if (c["fmt"] == "%Y" or c["fmt"] in FULL_FMTS or c["fmt"] in DAY_NO_MONTH_FMTS or c["fmt"] in NO_DAY_TIME_FMTS) and y < 1000:
            c["y"] = y = y + 1000
        if c["fmt"] in DAY_NO_MONTH_FMTS:
            c["d"] = rnd.randrange(1, 32)       # January and December both have 31 days
        if c["fmt"] in FULL_FMTS:
            c["d"] = rnd.choice([calendar.monthrange(y, m)[1], rnd.randrange(1, calendar.monthrange(y, m)[1] + 1)])
        if rnd.random() < 0.6:
            c["decoys_before"] = rnd.sample(DECOYS, rnd.randrange(0, 3))
            c["decoys_after"] = rnd.sample(DECOYS, rnd.randrange(0, 3))
    return c


def run_shard(ctx, desc):
    import dateparser  # noqa

    PathTap.install()
    ac = AnchorCounter(ANCHORS).start()
    try:
        if desc["part"] == "lastday":
            ys = years_for(ctx.tier)[desc["i"]::desc["k"]]
            for y in ys:
                for m in range(1, 13):
                    check_case(ctx, {"kind": "my", "y": y, "m": m, "base": iso(datetime(2021, 3, 31, 9, 0)),
                                     "pd": "last", "pm": "current", "rtp": False})
            ctx.count("lastday_years", len(ys))
            ctx.sample({"lastday_years_this_shard": ys[:10], "count": len(ys)})
        else:
            rnd = rng(ctx.seed, "C08", desc["i"])
            for _ in range(desc["n"]):
                check_case(ctx, gen_random(rnd))
        ctx.reask()
    finally:
        ac.stop()
    for k, v in ac.counts.items():
        ctx.count("anchor:" + k, v)


def finalize(merged, tier, seed):
    c = merged["counters"]
    inc = []
    if c.get("on_path:absolute-time", 0) < 5000:
        inc.append("absolute-time path reached only %d times" % c.get("on_path:absolute-time", 0))
    if c.get("on_path:raw-format", 0) + c.get("on_path:custom-formats", 0) < 300:
        inc.append("custom-format path reached too rarely")
    if c.get("lastday_years", 0) != len(years_for(tier)):
        inc.append("last-day walk incomplete: %d of %d years" % (c.get("lastday_years", 0), len(years_for(tier))))
    return {"inconclusive": inc, "anchors_hit": {k[7:]: v for k, v in c.items() if k.startswith("anchor:")},
            "lastday_rule_exhaustive_over_years_1_9999": tier == "thorough"}


def replay_case(ctx, v):
    PathTap.install()
    c = {k: x for k, x in v["case"].items() if k != "string"}
    check_case(ctx, c)
