"""C14 — custom date_formats round-trip what the format expresses."""
import calendar
from datetime import date, datetime, timedelta

from ..gen.common import MN, WN, rng
from ..hooks import AnchorCounter
from ..monitors import PathTap, TranslateTap
from ..oracles import vocab
from ..util import iso, parse_iso

LEVEL = "exploration"
RULE = ("English: datetimes 1900-2100 (month ends, leap days, 12 AM/PM edges, uniform) x ~45 formats of distinct directives "
        "(numeric with every separator incl. none, named month/weekday, 12h/24h, %f, %y, %j, partial %B %Y, %m/%Y, %Y, %d %B, "
        "%H:%M:%S, odd literals) x PREFER_DAY/MONTH first/last; expected = what the format expresses of d, missing day/month by "
        "the preferences, missing year = current year bracketed by two harness clock reads, %y pivot 69, cross-checked with "
        "datetime.strptime on the raw string (raw-match precedence). Localised: for every language every single-meaning month "
        "(weekday) name whose stand-alone translation is the canonical English name, inside '%d %B %Y', '%Y/%B/%d %H:%M' "
        "('%A %d/%m/%Y'), PARSERS=['custom-formats']. non-trivial distinct = distinct (format, string, preferences) resp. "
        "(language, name, format) accepted by the raw-format shortcut or the custom-formats parser (path tap).")
ASSUMPTIONS = ["year-less formats are never rendered for Feb 29", "names C05 reports as unresolved are C05's findings, not re-asserted here"]
TIMEOUT = {"quick": 600, "thorough": 3600}
ANCHORS = [("dateparser.date", "parse_with_formats"), ("dateparser.date", "_DateLocaleParser._get_translated_date_with_formatting"),
           ("dateparser.date", "_DateLocaleParser._try_given_formats")]
FORMATS = ["%Y-%m-%d", "%d/%m/%Y", "%m.%d.%Y %H:%M", "%Y%m%d%H%M%S", "%d %B %Y", "%B %d, %Y", "%b %d %Y %I:%M %p", "%A, %d %B %Y",
           "%a %d %b %Y %H:%M:%S", "%Y-%m-%dT%H:%M:%S.%f", "%d-%m-%y", "%y/%m/%d %H:%M", "%I:%M:%S %p %d.%m.%Y", "%H:%M %d %b %Y",
           "%B %Y", "%m/%Y", "%Y", "%b %y", "%d %B", "%d/%m", "%m-%d %H:%M", "%H:%M:%S", "%Y %j", "%j/%Y %H:%M", "%d|%m|%Y",
           "[%Y] %B (%d)", "%Yx%mx%d", "%S:%M:%H %d %m %Y", "%f %Y-%m-%d", "%Y%m%d", "%d%m%Y", "%H%M", "%Y/%m/%d %I %p",
           "%A %d %B %Y %H:%M", "%B", "%d.%m.%Y %H:%M:%S.%f", "%m/%d/%y %I:%M %p", "%Y-%m", "%a, %d %b %Y", "%d %b", "%p %I:%M %d/%m/%Y",
           "%H:%M", "%y%m%d", "%A", "%Y %B", "%d.%m.%Y %H:%M:%S,%f", "%Y-%m-%d %H.%M.%S.%f", "%Y%m%d%H%M%S%f", "%H:%M:%S:%f %d/%m/%Y",
           "%d %Y %m", "%Y-%d-%m %H:%M", "%b-%d-%Y", "%A %d. %B %Y", "%I%p %d/%m/%Y", "%m %d %y %H %M %S",
           "%j", "%j %H:%M", "%H:%M %j", "%j %I:%M %p",
           # partial formats that carry a fraction of a second (completion must keep it), adjacent fields
           "%B %Y %H:%M:%S.%f", "%Y %H:%M:%S.%f", "%m/%Y %S.%f", "%d %B %H:%M:%S.%f", "%d %B %Y %I:%M%p", "%Hh%M %d/%m/%Y", "%d%b%Y",
           "%I%p %d %B %Y"]
N_EN = {"quick": 30000, "thorough": 400000}


def render(d, f):
    out, i = "", 0
    while i < len(f):
        if f[i] == "%":
            c = f[i + 1]
            i += 2
            out += {"Y": "%04d" % d.year, "y": "%02d" % (d.year % 100), "m": "%02d" % d.month, "d": "%02d" % d.day,
                    "H": "%02d" % d.hour, "M": "%02d" % d.minute, "S": "%02d" % d.second, "f": "%06d" % d.microsecond,
                    "I": "%02d" % ((d.hour % 12) or 12), "p": "AM" if d.hour < 12 else "PM", "B": MN[d.month - 1],
                    "b": MN[d.month - 1][:3], "A": WN[d.weekday()], "a": WN[d.weekday()][:3],
                    "j": "%03d" % d.timetuple().tm_yday}[c]
        else:
            out += f[i]
            i += 1
    return out


def expected(d, f, pd, pm, year_now):
    y = d.year
    if "%y" in f:
        y = (2000 if d.year % 100 < 69 else 1900) + d.year % 100
    elif "%Y" not in f:
        y = year_now
    has_j = "%j" in f
    hasm = has_j or any(x in f for x in ("%m", "%b", "%B"))
    hasd = has_j or "%d" in f
    mth = d.month if hasm else {"first": 1, "last": 12}[pm]
    dd = d.day if hasd else {"first": 1, "last": calendar.monthrange(y, mth)[1]}[pd]
    if has_j and "%Y" not in f and "%y" not in f:
        # a day of the year without a year counts in the current year (the rendered number is d's own day of year)
        yday = d.timetuple().tm_yday
        if yday > (366 if calendar.isleap(y) else 365):
            return None
        base = datetime(y, 1, 1) + timedelta(days=yday - 1)
        mth, dd = base.month, base.day
    hh = d.hour if ("%H" in f or ("%I" in f and "%p" in f)) else (((d.hour % 12) or 12) % 12 if "%I" in f else 0)
    return datetime(y, mth, dd, hh, d.minute if "%M" in f else 0, d.second if "%S" in f else 0, d.microsecond if "%f" in f else 0)


def shards(tier, seed):
    out = [{"part": "en", "i": i, "n": N_EN[tier] // 8} for i in range(8)]
    out += [{"part": "loc", "i": i, "k": 6} for i in range(6)]
    return out


def gen_dt(rnd):
    k = rnd.random()
    if k < 0.2:
        y, m = rnd.randrange(1900, 2101), rnd.randrange(1, 13)
        return datetime(y, m, calendar.monthrange(y, m)[1], rnd.choice([0, 11, 12, 23]), rnd.choice([0, 59]), rnd.choice([0, 59]),
                        rnd.choice([0, 1, 999999, 500000]))
    if k < 0.3:
        return datetime(rnd.choice([1904, 1996, 2000, 2024, 2096]), 2, 29, rnd.randrange(24), rnd.randrange(60), rnd.randrange(60))
    if k < 0.4:
        return datetime(rnd.randrange(1900, 2101), rnd.choice([1, 12]), rnd.choice([1, 31]), rnd.choice([0, 12]), 0, 0)
    return datetime(rnd.randrange(1900, 2101), rnd.randrange(1, 13), rnd.randrange(1, 29), rnd.randrange(24), rnd.randrange(60),
                    rnd.randrange(60), rnd.randrange(10 ** 6))


def check_en(ctx, c):
    import dateparser

    ctx.remember(check_en, c)
    d, f, pd, pm = parse_iso(c["d"]), c["f"], c["pd"], c["pm"]
    s = render(d, f)
    y0 = date.today().year
    PathTap.reset()
    try:
        r = dateparser.parse(s, date_formats=[f], languages=["en"],
                             settings={"PREFER_DAY_OF_MONTH": pd, "PREFER_MONTH_OF_YEAR": pm})
    except Exception as e:
        r = e
    y1 = date.today().year
    ctx.ran()
    path = PathTap.accepted(("raw-format", "custom-formats"))
    exps = {iso(x) for x in (expected(d, f, pd, pm, y0), expected(d, f, pd, pm, y1)) if x is not None}
    if not exps:
        return
    # raw-match precedence cross-check: the stdlib reading of the raw string must agree with the by-construction fields
    try:
        raw = datetime.strptime(s, f)
        ctx.count("raw_strptime_matches")
    except ValueError:
        raw = None
    feats = {"format": f, "path": path, "has_j": "%j" in f}
    cj = dict(c, string=s)
    if not isinstance(r, datetime) or iso(r) not in exps:
        ctx.violation(cj, r, sorted(exps), "format-roundtrip", feats)
        return
    if raw is not None and any(getattr(raw, a) != getattr(r, a) for a in ("hour", "minute", "second", "microsecond")):
        ctx.violation(cj, r, raw, "raw-match-not-returned", feats)
        return
    if path not in ("raw-format", "custom-formats"):
        ctx.count("off_path:%s" % path)
        return
    ctx.count("on_path:%s" % path)
    ctx.nontrivial(f, s, pd, pm)
    ctx.sample({"format": f, "string": s, "result": iso(r)}, limit=3)


def resolvable(lang, normalize=True):
    """[(key, word)] of single-meaning names whose stand-alone translation is the canonical English name."""
    from dateparser.date import DateDataParser

    info = vocab.locale_info(lang, lang)
    mm = vocab.meaning_map(info, normalize)
    L = vocab.get_locale(lang)
    translate = getattr(L, "translate", None)    # internal: when renamed, the free-text probe below is the only domain filter
    st = getattr(DateDataParser(languages=[lang], settings={"NORMALIZE": normalize}), "_settings", None)
    probe = DateDataParser(languages=[lang], settings={"RELATIVE_BASE": datetime(2021, 6, 16, 10, 30), "NORMALIZE": normalize})
    out = []
    for key in vocab.MONTHS + vocab.WEEKDAYS:
        seen = set()
        for w in info.get(key) or []:
            if not isinstance(w, str) or w in seen:
                continue
            seen.add(w)
            if mm.get(vocab.lookup_form(w, normalize)) != {key}:
                continue
            try:
                if translate is not None and st is not None and translate(w, keep_formatting=False, settings=st).strip() != key:
                    continue
                # C05's own assertion is the domain filter: the name must resolve in free text
                if key in vocab.MONTHS:
                    if probe.get_date_data("13 %s 2015" % w)["date_obj"] != datetime(2015, vocab.MONTHS.index(key) + 1, 13):
                        continue
                elif probe.get_date_data(w)["date_obj"] is None:
                    continue
            except Exception:
                continue
            out.append((key, w))
    return out


def check_loc(ctx, lang, key, w, normalize=True):
    import dateparser

    if key in vocab.MONTHS:
        mi = vocab.MONTHS.index(key) + 1
        cases = [("%d %B %Y", "17 %s 2013" % w, datetime(2013, mi, 17)),
                 ("%Y/%B/%d %H:%M", "2013/%s/17 10:45" % w, datetime(2013, mi, 17, 10, 45)),
                 # two fields of the format side by side (clock time glued to AM/PM); two-digit year first
                 ("%d %B %Y %I:%M%p", "17 %s 2013 06:08PM" % w, datetime(2013, mi, 17, 18, 8)),
                 ("%y %B %d", "31 %s 25" % w, datetime(2031, mi, 25)),
                 ]
        if not (w[0].isdigit() or w[-1].isdigit()):
            # the name directly between two numeric fields, nothing in between (names that begin or end with a digit would
            # run into the neighbouring number: 'thg 1' + '2013')
            cases.append(("%d%B%Y", "17%s2013" % w, datetime(2013, mi, 17)))
    else:
        wi = vocab.WEEKDAYS.index(key)
        d = datetime(2013, 5, 13 + wi)  # 2013-05-13 is a Monday
        cases = [("%A %d/%m/%Y", "%s %02d/%02d/%04d" % (w, d.day, d.month, d.year), d)]
    for fmt, s, exp in cases:
        fmts = [fmt, fmt.replace("%A", "%a").replace("%B", "%b")]
        raw = None
        for f_ in fmts:       # raw-match precedence: the first given format the raw string matches wins
            try:
                raw = datetime.strptime(s, f_)
                break
            except ValueError:
                pass
        PathTap.reset()
        TranslateTap.reset()
        try:
            r = dateparser.parse(s, date_formats=fmts, languages=[lang],
                                 settings={"PARSERS": ["custom-formats"], "NORMALIZE": normalize})
        except Exception as e:
            r = e
        ctx.ran()
        want = raw or exp
        ent = "%s|%s|%s" % (lang, key, w)
        if r != want:
            tr = [e for e in TranslateTap.events() if e[2]]
            ctx.violation({"kind": "localised", "language": lang, "key": key, "word": w, "format": fmt, "string": s, "normalize": normalize,
                           "translated_with_formatting": tr[-1][3] if tr else None}, r, want, "localised-format-roundtrip",
                          {"entry": ent, "format": fmt, "kind": "month" if key in vocab.MONTHS else "weekday",
                           "raw_match": raw is not None})
            return
        ctx.nontrivial(ent, fmt, normalize)
        ctx.count("localised_ok:%s" % ("month" if key in vocab.MONTHS else "weekday"))
        ctx.count("localised_ok:NORMALIZE=%s" % normalize)
        if raw is not None:
            ctx.count("localised_raw_english_collision")


def run_shard(ctx, desc):
    import dateparser  # noqa

    PathTap.install()
    TranslateTap.install()
    ac = AnchorCounter(ANCHORS).start()
    try:
        if desc["part"] == "en":
            rnd = rng(ctx.seed, "C14", desc["i"])
            if desc["i"] == 0:
                for f in FORMATS:      # every format at fixed boundary datetimes, whatever the seed
                    for d in (datetime(2000, 2, 29, 0, 0, 0), datetime(1999, 12, 31, 23, 59, 59, 999999), datetime(2024, 5, 12, 12, 0, 0, 1)):
                        if "%Y" not in f and "%y" not in f and (d.month, d.day) == (2, 29):
                            continue
                        check_en(ctx, {"d": iso(d), "f": f, "pd": "last", "pm": "first"})
            for _ in range(desc["n"]):
                d = gen_dt(rnd)
                f = rnd.choice(FORMATS)
                if "%Y" not in f and "%y" not in f and (d.month, d.day) == (2, 29):
                    continue
                check_en(ctx, {"d": iso(d), "f": f, "pd": rnd.choice(["first", "last"]), "pm": rnd.choice(["first", "last"])})
        else:
            from dateparser.data.languages_info import language_order

            langs = list(language_order)[desc["i"]::desc["k"]]
            n = 0
            for lang in langs:
                for key, w in resolvable(lang):
                    check_loc(ctx, lang, key, w)
                    n += 1
                # the same names written exactly as listed, with accent normalisation off (the locale's other tables)
                for key, w in resolvable(lang, False):
                    check_loc(ctx, lang, key, w, False)
            ctx.count("localised_names", n)
            ctx.count("localised_languages", len(langs))
        ctx.reask()
    finally:
        ac.stop()
    for k, v in ac.counts.items():
        ctx.count("anchor:" + k, v)


def finalize(merged, tier, seed):
    c = merged["counters"]
    inc = []
    if c.get("on_path:raw-format", 0) + c.get("on_path:custom-formats", 0) < 5000:
        inc.append("format path reached too rarely")
    if c.get("localised_names", 0) < 5000:
        inc.append("localised domain collapsed to %d names (a wholesale translate failure belongs to C05)" % c.get("localised_names", 0))
    if c.get("localised_ok:month", 0) < 3000 or c.get("localised_ok:weekday", 0) < 1500:
        inc.append("too few localised names round-tripped")
    return {"inconclusive": inc, "anchors_hit": {k[7:]: v for k, v in c.items() if k.startswith("anchor:")}}


def replay_case(ctx, v):
    PathTap.install()
    TranslateTap.install()
    c = v["case"]
    if c.get("kind") == "localised":
        check_loc(ctx, c["language"], c["key"], c["word"], c.get("normalize", True))
    else:
        check_en(ctx, {k: c[k] for k in ("d", "f", "pd", "pm")})
