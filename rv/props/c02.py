"""C02 — parse is total: a datetime or None, documented exceptions only."""
import traceback
from datetime import datetime, timedelta, timezone

from ..gen.common import MN, WN, corpus, dst_wall_case, rng
from ..hooks import AnchorCounter
from ..monitors import ConservationMonitor
from ..util import iso, parse_iso

LEVEL = "exploration"
RULE = ("the generator knows the class of what it builds: (a) valid configuration + arbitrary str <=100 chars (corpus strings "
        "mutated, token soups over a ~120-token alphabet, digit/separator soups, arbitrary Unicode incl. astral) x every "
        "documented setting with valid values (all resolvable TIMEZONE/TO_TIMEZONE names, RELATIVE_BASE anywhere in "
        "[datetime.min, datetime.max] naive or aware, CACHE_SIZE_LIMIT {0,1,2,5,1000,-1}, any PARSERS subset/order) x languages/"
        "locales/region x date_formats of distinct directives -> no exception may escape, value is None|datetime, DateData "
        "post-conditions, get_date_tuple agrees; (a') range-edge stratum (dates/relative phrases/epochs at 0001-01-01 and "
        "9999-12-31 x offset suffixes x zone settings x extreme bases); (a'') DST-edge stratum (wall times inside gaps/folds of "
        "16 DST zones as time-only/date-time/relative/epoch strings, zone as TIMEZONE/TO_TIMEZONE, reference around the transition, "
        "naive or aware); (b) wrong types -> exactly TypeError; (c) unknown/"
        "conflicting languages or locales -> exactly ValueError; (d) invalid settings x arbitrary strings incl. format-matching "
        "and empty ones -> exactly SettingValidationError. non-trivial distinct = distinct (class, string, configuration); "
        "escapes are deduplicated by (exception type, innermost library frame file:function).")
ASSUMPTIONS = ["TIMEZONE/TO_TIMEZONE are drawn from names the library resolves (pytz names, table abbreviations, offsets, local)"]
TIMEOUT = {"quick": 900, "thorough": 5400}
ANCHORS = [("dateparser.date", "_DateLocaleParser._try_freshness_parser"), ("dateparser.date", "_DateLocaleParser._try_parser"),
           ("dateparser.conf", "check_settings"), ("dateparser.languages.loader", "LocaleDataLoader._load_data"),
           ("dateparser.date", "_DateLocaleParser._is_valid_date_data")]
N_A = {"quick": 2400, "thorough": 160000}
N_EDGE = {"quick": 12000, "thorough": 200000}
N_D = {"quick": 2400, "thorough": 40000}
N_DST = {"quick": 6000, "thorough": 150000}

TOKS = ["ago", "in", "am", "pm", "t", "z", "utc", "gmt", "+", "-", ":", ".", "/", ",", "st", "nd", "th", "of", "at", "on", "year",
        "month", "week", "day", "hour", "minute", "second", "decade", "now", "today", "yesterday", "tomorrow", "jan", "feb", "mar",
        "may", "december", "monday", "fri", "sat", "noon", "midnight", "a", "an", "one", "29", "30", "31", "32", "0", "00", "12",
        "13", "24", "60", "99", "100", "1969", "2068", "9999", "10000", "0000", "0001", "1e5", "1.5", "2,5", "--", "::", "()",
        "[]", "{}", "<>", "\\", "%", "%d", "\x00", "‎", "‏", "\xa0", "\n", "\t", "’", "٣", "١٢",
        "௧", "\U0001d7d9", "\xb2", "\xbd", "Ⅳ", "一", "月", "日", "年", "時", "분", "초",
        "+05:30", "-0500", "+9999", "EST", "(EST)", "PST8PDT", "Z", "г.", "u", "on:", "le", "de", "el", "วัน",
        "۱۲", "１２", "१२", "1234567890", "-1234567890123", "12345678", "ago ago", "in in",
        "−1484823450", "–1234567890123", "－1234567890", "١٤٨٤٨٢٣٤٥٠", "-١٤٨٤٨٢٣٤٥٠"]
DIRECTIVES = "aAbBdHIjmMpSyYf"


def shards(tier, seed):
    out = [{"part": "a", "i": i, "n": N_A[tier] // 12} for i in range(12)]
    out += [{"part": "edge", "i": i, "n": N_EDGE[tier] // 3} for i in range(3)]
    out += [{"part": "dst", "i": i, "n": N_DST[tier] // 2} for i in range(2)]
    out += [{"part": "bcd", "i": 0, "n": N_D[tier]}]
    return out


# ------------------------------------------------------------------ encoding for replay
def enc(x):
    if isinstance(x, datetime):
        z = getattr(x.tzinfo, "zone", None)
        return {"$dt": iso(x), "pytz": z}
    if isinstance(x, dict):
        return {k: enc(v) for k, v in x.items()}
    if isinstance(x, (list, tuple)):
        return [enc(v) for v in x]
    if isinstance(x, (set, frozenset)):
        return {"$set": sorted(enc(v) for v in x)}
    if isinstance(x, bytes):
        return {"$bytes": x.decode("latin-1")}
    if isinstance(x, float) or x is None or isinstance(x, (bool, int, str)):
        return x
    return {"$repr": repr(x)}


def dec(x):
    if isinstance(x, dict):
        if "$dt" in x:
            d = parse_iso(x["$dt"])
            if x.get("pytz"):
                import pytz

                return pytz.timezone(x["pytz"]).localize(d.replace(tzinfo=None))
            return d
        if "$set" in x:
            return set(dec(v) for v in x["$set"])
        if "$bytes" in x:
            return x["$bytes"].encode("latin-1")
        if "$repr" in x:
            return object()
        return {k: dec(v) for k, v in x.items()}
    if isinstance(x, list):
        return [dec(v) for v in x]
    return x


# ------------------------------------------------------------------ generators
class Gen:
    def __init__(self, rnd):
        import pytz
        from dateparser.data.languages_info import language_locale_dict, language_order
        from dateparser.timezones import timezone_info_list

        self.rnd = rnd
        self.corpus = [c[0] for c in corpus()]
        self.language_order = list(language_order)
        self.lld = dict(language_locale_dict)
        abbr = [n for i in timezone_info_list[1:] for n, _ in i["timezones"]]
        # every name pytz resolves (aliases such as Asia/Calcutta, Japan, GB included), not only the "common" ones
        self.tzs = list(pytz.all_timezones) + abbr + ["+0530", "-1200", "UTC+14", "UTC-09:30", "GMT+3", "UTC+05:45",
                                                         "local", "Local"]
        self.to_tzs = self.tzs[:-2] + ["UTC"]
        self.pytz = pytz

    def mutate(self, s):
        rnd = self.rnd
        for _ in range(rnd.randrange(1, 4)):
            k = rnd.random()
            if not s:
                s = rnd.choice(TOKS)
                continue
            i = rnd.randrange(len(s))
            if k < 0.2:
                s = s[:i] + s[i + 1:]
            elif k < 0.4:
                s = s[:i] + rnd.choice(TOKS) + s[i:]
            elif k < 0.5:
                s = s[:i] + s[i:][::-1]
            elif k < 0.6:
                s = s[:i] + chr(rnd.choice([rnd.randrange(32, 127), rnd.randrange(0x80, 0x3000), rnd.randrange(0x3000, 0xd800),
                                            rnd.randrange(0xe000, 0xffff), rnd.randrange(0x10000, 0x1ffff)])) + s[i + 1:]
            elif k < 0.65:
                # punctuation glued or hung onto the end (after a clock time, a year, a word)
                s = s + rnd.choice([".", ",", ":", " .", "..", "-", "/", ";", ".:", ":.", " -", "'", ")", "(", "?"])
            elif k < 0.7:
                s = s + " " + rnd.choice(self.corpus)
            elif k < 0.8:
                s = s.upper() if rnd.random() < 0.5 else s.swapcase()
            elif k < 0.9:
                s = "".join(rnd.choice("0123456789") if c.isdigit() else c for c in s)
            else:
                s = s.replace(" ", rnd.choice(["", "  ", "-", "/", ".", ":", "\t"]))
        return s[:100]

    def string(self):
        rnd = self.rnd
        k = rnd.random()
        if k < 0.45:
            return self.mutate(rnd.choice(self.corpus))
        if k < 0.7:
            return rnd.choice(["", " "]).join(rnd.choice(TOKS) for _ in range(rnd.randrange(1, 9)))[:100]
        if k < 0.85:
            return "".join(rnd.choice("0123456789 -/.:,+TZ") for _ in range(rnd.randrange(1, 30)))
        return "".join(chr(rnd.choice([rnd.randrange(32, 127), rnd.randrange(0x80, 0x800), rnd.randrange(0x800, 0xd800),
                                       rnd.randrange(0x10000, 0x1ffff)])) for _ in range(rnd.randrange(0, 40)))

    def base(self):
        rnd = self.rnd
        k = rnd.random()
        if k < 0.3:
            return rnd.choice([datetime.min, datetime.max, datetime(1, 1, 1, 0, 0, 1), datetime(9999, 12, 31), datetime(1, 12, 31),
                               datetime(9999, 1, 1), datetime(1970, 1, 1), datetime(2000, 2, 29), datetime(1900, 1, 1),
                               datetime(1, 1, 2), datetime(9999, 12, 30, 23),
                               datetime.min.replace(tzinfo=timezone.utc), datetime.max.replace(tzinfo=timezone.utc),
                               datetime(1, 1, 1, 5, tzinfo=timezone(timedelta(hours=14))),
                               datetime(9999, 12, 31, 20, tzinfo=timezone(timedelta(hours=-12)))])
        d = datetime(rnd.randrange(1, 10000), rnd.randrange(1, 13), rnd.randrange(1, 29), rnd.randrange(24), rnd.randrange(60))
        if rnd.random() < 0.3:
            if 2 < d.year < 9998:
                try:
                    d = self.pytz.timezone(rnd.choice(self.pytz.common_timezones)).localize(d)
                except Exception:
                    d = d.replace(tzinfo=timezone.utc)
            else:
                d = d.replace(tzinfo=timezone.utc)
        return d

    def settings(self, maxkeys=6):
        rnd = self.rnd
        lo = self.language_order
        opts = {
            "DATE_ORDER": lambda: rnd.choice(["DMY", "DYM", "MDY", "MYD", "YDM", "YMD"]),
            "PREFER_LOCALE_DATE_ORDER": lambda: rnd.random() < 0.5,
            "TIMEZONE": lambda: rnd.choice(self.tzs),
            "TO_TIMEZONE": lambda: rnd.choice(self.to_tzs),
            "RETURN_AS_TIMEZONE_AWARE": lambda: rnd.random() < 0.5,
            "PREFER_MONTH_OF_YEAR": lambda: rnd.choice(["current", "first", "last"]),
            "PREFER_DAY_OF_MONTH": lambda: rnd.choice(["current", "first", "last"]),
            "PREFER_DATES_FROM": lambda: rnd.choice(["current_period", "past", "future"]),
            "RELATIVE_BASE": self.base,
            "STRICT_PARSING": lambda: rnd.random() < 0.5,
            "REQUIRE_PARTS": lambda: rnd.sample(["day", "month", "year"], rnd.randrange(0, 4)),
            "SKIP_TOKENS": lambda: rnd.sample(["t", "xyz", "at", ".", ":", "12", " ", "", "a", "(", ")", "le", "abc."], rnd.randrange(0, 4)),
            "NORMALIZE": lambda: rnd.random() < 0.5,
            "RETURN_TIME_AS_PERIOD": lambda: rnd.random() < 0.5,
            "PARSERS": lambda: rnd.sample(["timestamp", "negative-timestamp", "relative-time", "custom-formats", "absolute-time",
                                           "no-spaces-time"], rnd.randrange(0, 7)),
            "DEFAULT_LANGUAGES": lambda: rnd.sample(lo, rnd.randrange(0, 3)),
            "LANGUAGE_DETECTION_CONFIDENCE_THRESHOLD": lambda: rnd.choice([0.0, 1.0, rnd.random()]),
            "CACHE_SIZE_LIMIT": lambda: rnd.choice([0, 1, 2, 5, 1000, -1]),
            "FUZZY": lambda: rnd.random() < 0.5,
        }
        st = {}
        for k in rnd.sample(list(opts), rnd.randrange(0, maxkeys)):
            st[k] = opts[k]()
        return st

    def formats(self):
        rnd = self.rnd
        if rnd.random() < 0.7:
            return None
        out = []
        for _ in range(rnd.randrange(1, 3)):
            ds = rnd.sample(DIRECTIVES, rnd.randrange(1, 6))
            out.append(rnd.choice([" ", "-", "/", "", ":"]).join("%" + d for d in ds))
        return out

    def lang_kwargs(self, autodetect_share=0.2):
        rnd = self.rnd
        kw = {}
        k = rnd.random()
        if k < autodetect_share:
            return kw
        if k < 0.65:
            kw["languages"] = rnd.sample(self.language_order, rnd.randrange(1, 4))
        elif k < 0.8:
            l = rnd.choice([x for x in self.language_order if self.lld[x]])
            kw["locales"] = [rnd.choice(self.lld[l])]
        else:
            kw["languages"] = rnd.sample(self.language_order[:30], 2)
            kw["region"] = rnd.choice(["US", "CA", "IN", "BE", "001", "XX", "GB", "CH"])
        # constructor flags are part of a valid configuration too (DateDataParser only; parse() has no such arguments)
        if rnd.random() < 0.2:
            kw["use_given_order"] = True
        if rnd.random() < 0.15:
            kw["try_previous_locales"] = True
        return kw


EDGE = ["0001-01-01 00:00", "0001-01-01 00:00:00.000001", "0001-01-01 13:00", "0001-12-31", "0001-01-02 01:00", "9999-12-31 23:59",
        "9999-12-31 23:59:59.999999", "9999-12-31 10:00", "9999-12-30 23:00", "9999-01-01", "1 January 0001",
        "31 December 9999 11:59 PM", "January 1", "Dec 31", "December", "January", "Monday", "Sunday", "23:59", "00:00", "31 12 99",
        "01/01/01", "9999", "0001", "1", "12 9999", "9999-12", "0001-01", "29 February", "Feb 29 0004", "99991231", "00010101",
        "31.12.9999", "1.1.1", "0001-01-01T00:00:00Z", "9999-12-31T23:59:59.999999+00:00",
        # a clock time (or a number) followed by a separator and nothing else
        "12 May 2015 10:30.", "10:30.", "23:59:59 .", "1:2..", "10:30,", "10:30:", "12 May 2015 10:30:15.", "10:30 .5", "10.30.",
        "12:", ":12", "12:30:", "1:1:1:1.", "10:30-", "10:30+", "10:30 +", "May 2015.", "2015.", "12.05.2015."]
OFFS = ["", " +0000", " -0500", " +1400", " -1200", " EST", " UTC", " Z", " +05:30", " GMT+2", " PST", " AEST", " UTC-12:00"]
REL = ["in 1 day", "1 day ago", "in 1 month", "1 year ago", "in 1 decade", "tomorrow", "yesterday", "now", "in 24 hours",
       "1 second ago", "in 5000 years", "9999 years ago", "in 1 week", "next year", "last month", "2 hours ago EST",
       "in 1 hour +1400", "1 week ago at 23:59", "in 9999 decades", "0 seconds ago", "in 1.5 hours", "today 00:00", "10000 days ago"]
SIGNS = ["−", "–", "—", "‐", "﹣", "－", "+", "-", "--", "−-", "±"]
TS = ["9999999999", "1000000000", "9999999999999", "-9999999999", "-1000000000123", "0000000000", "253402300799", "99999999999",
      "-99999999999", "2534023007990", "-6213559680000", "9999999999999999", "-9999999999999999"]
EDGE_TZS = ["UTC", "Pacific/Kiritimati", "Pacific/Pago_Pago", "Asia/Kolkata", "America/New_York", "EST", "+0530", "-1200", "UTC+14",
            "local"]
EDGE_BASES = [datetime.min, datetime.max, datetime(1, 1, 1, 12), datetime(9999, 12, 31), datetime(1, 1, 2), datetime(9999, 12, 30, 23),
              datetime(1, 12, 31, 23, 59), datetime(9999, 1, 1), datetime.min.replace(tzinfo=timezone.utc),
              datetime.max.replace(tzinfo=timezone.utc), datetime(1, 1, 1, 5, tzinfo=timezone(timedelta(hours=14))),
              datetime(9999, 12, 31, 20, tzinfo=timezone(timedelta(hours=-12))), datetime(1, 1, 7), datetime(9999, 12, 25)]


def gen_edge(g):
    rnd = g.rnd
    k = rnd.random()
    if k < 0.5:
        s = rnd.choice(EDGE) + rnd.choice(OFFS)
    elif k < 0.58:
        # enormous counts and numbers (arithmetic on them must overflow quietly, whatever numeric type is used inside):
        # relative phrases in several languages, decimals with long tails, absolute strings with an over-long field
        n = rnd.choice(["9", "1", "10", "12345678901234567890"]) * rnd.choice([1, 2, 3]) + "0" * rnd.choice([0, 15, 27, 28, 29, 30, 45, 80])
        if rnd.random() < 0.3:
            n += rnd.choice([".5", ",5", ".%s" % ("3" * rnd.choice([20, 40])), ".0"])
        unit = rnd.choice(["year", "years", "decade", "decades", "month", "months", "week", "weeks", "day", "days", "hour", "hours",
                           "minute", "minutes", "second", "seconds"])
        s = rnd.choice(["%s %s ago" % (n, unit), "in %s %s" % (n, unit), "%s %s" % (n, unit), "hace %s años" % n, "il y a %s ans" % n,
                        "vor %s Jahren" % n, "%s лет назад" % n, "%s年前" % n, "%s %s ago at 10:30" % (n, unit),
                        "12 May %s" % n, "%s May 2015" % n, "2015-05-%s" % n, "10:%s" % n, "%s:30" % n, "12 May 2015 10:30:15.%s" % n,
                        "1 year %s %s ago" % (n, unit)])
    elif k < 0.8:
        s = rnd.choice(REL)
    else:
        s = rnd.choice(TS)
        if rnd.random() < 0.35:
            # sign look-alikes and native digits in front of / inside an epoch-shaped number
            body = s.lstrip("-")
            if rnd.random() < 0.3:
                body = "".join(chr(0x660 + int(ch)) if ch.isdigit() else ch for ch in body)
            s = rnd.choice(SIGNS) + body + rnd.choice(["", "", ".", ".5", " "])
    st = {}
    if rnd.random() < 0.7:
        st["TIMEZONE"] = rnd.choice(EDGE_TZS)
    if rnd.random() < 0.5:
        st["TO_TIMEZONE"] = rnd.choice(EDGE_TZS[:-1])
    if rnd.random() < 0.4:
        st["RETURN_AS_TIMEZONE_AWARE"] = rnd.random() < 0.5
    if rnd.random() < 0.7:
        st["RELATIVE_BASE"] = rnd.choice(EDGE_BASES)
    if rnd.random() < 0.5:
        st["PREFER_DATES_FROM"] = rnd.choice(["past", "future", "current_period"])
    if rnd.random() < 0.3:
        st["PREFER_DAY_OF_MONTH"] = rnd.choice(["first", "last", "current"])
    if rnd.random() < 0.3:
        st["PREFER_MONTH_OF_YEAR"] = rnd.choice(["first", "last", "current"])
    if rnd.random() < 0.3:
        st["PARSERS"] = rnd.choice([["negative-timestamp", "timestamp", "relative-time", "absolute-time", "no-spaces-time"],
                                    ["negative-timestamp"], ["timestamp", "negative-timestamp"],
                                    ["no-spaces-time", "negative-timestamp", "absolute-time"]])
    if rnd.random() < 0.2:
        st["DATE_ORDER"] = rnd.choice(["DMY", "YMD", "MDY"])
    if rnd.random() < 0.15:
        st["RETURN_TIME_AS_PERIOD"] = True
    fm = None
    if rnd.random() < 0.3:
        fm = [rnd.choice(["%Y-%m-%d %H:%M", "%d %B", "%H:%M", "%Y", "%m/%d/%y", "%Y-%m-%d", "%d.%m.%Y", "%B", "%A"])]
    return {"cls": "a", "s": s, "formats": fm, "kw": {"languages": ["en"]}, "settings": st}


def gen_dst(g):
    """(a'') DST-edge stratum: wall times inside gaps/folds of DST-observing zones, written as time-only / date-time /
    relative / epoch strings, with the zone as TIMEZONE and/or TO_TIMEZONE and a reference on or around the transition
    (naive, or aware in that very zone with either is_dst reading)."""
    rnd = g.rnd
    w = dst_wall_case(rnd)
    wall, base, zone = w["wall"], w["base"], w["zone"]
    tz = g.pytz.timezone(zone)
    k = rnd.random()
    hm = "%02d:%02d" % (wall.hour, wall.minute)
    if k < 0.3:
        s = rnd.choice([hm, hm + ":00", wall.strftime("%I:%M %p"), wall.strftime("%I:%M%p").lower(), "at " + hm,
                        hm + rnd.choice([" EST", " +0000", " UTC", " Z"])])
    elif k < 0.55:
        s = rnd.choice([wall.strftime("%Y-%m-%d %H:%M"), wall.strftime("%Y-%m-%dT%H:%M:%S"), "%d %s %d %s" % (wall.day, MN[wall.month - 1], wall.year, hm),
                        "%s %d %s" % (MN[wall.month - 1], wall.day, hm), "%d %s %s" % (wall.day, MN[wall.month - 1], hm),
                        "%s %s" % (WN[wall.weekday()], hm), WN[wall.weekday()], wall.strftime("%m/%d/%Y %H:%M"),
                        wall.strftime("%d.%m.%y %H:%M"), "%s %d" % (MN[wall.month - 1], wall.year)])
    elif k < 0.85:
        s = rnd.choice(["in 1 hour", "1 hour ago", "in 30 minutes", "90 minutes ago", "in 1 day", "1 day ago", "yesterday " + hm,
                        "today " + hm, "tomorrow at " + hm, "now", "in 24 hours", "1 week ago", "in 1 month", "1 year ago",
                        "yesterday", "tomorrow", "in 2 hours " + hm, "1 day ago at " + hm, "next week", "last month"])
    else:
        import calendar as _cal

        e = _cal.timegm(w["t_utc"].timetuple()) + rnd.choice([0, -1, 1, -1800, 1800, 3599, -3600])
        s = str(e) + rnd.choice(["", "000", "999", "000000"])
    st = {}
    if rnd.random() < 0.75:
        st["TIMEZONE"] = zone
    if rnd.random() < 0.45:
        st["TO_TIMEZONE"] = rnd.choice([zone, zone, "UTC", rnd.choice(EDGE_TZS[:-1])])
    if not st or rnd.random() < 0.1:
        st["TIMEZONE"] = zone
    if rnd.random() < 0.4:
        st["RETURN_AS_TIMEZONE_AWARE"] = rnd.random() < 0.5
    kb = rnd.random()
    if kb < 0.6:
        st["RELATIVE_BASE"] = base
    elif kb < 0.85:
        try:
            st["RELATIVE_BASE"] = tz.localize(base, is_dst=rnd.random() < 0.5)
        except Exception:
            st["RELATIVE_BASE"] = base
    if rnd.random() < 0.7:
        st["PREFER_DATES_FROM"] = rnd.choice(["past", "future", "current_period"])
    if rnd.random() < 0.15:
        st["RETURN_TIME_AS_PERIOD"] = True
    if rnd.random() < 0.15:
        st["PREFER_DAY_OF_MONTH"] = rnd.choice(["first", "last", "current"])
    fm = None
    if rnd.random() < 0.2:
        fm = [rnd.choice(["%H:%M", "%Y-%m-%d %H:%M", "%I:%M %p", "%d %B %H:%M", "%A %H:%M"])]
    return {"cls": "a", "s": s, "formats": fm, "kw": {"languages": ["en"]}, "settings": st}


# ------------------------------------------------------------------ classes b, c, d
def wrong_type_cases(g):
    rnd = g.rnd
    out = []
    for bad in (123, None, b"2015-01-01", 1.5, ["2015"], datetime(2015, 1, 1)):
        out.append(({"cls": "b", "s": bad, "formats": None, "kw": {}, "settings": None}, "must"))
        out.append(({"cls": "b", "s": bad, "formats": None, "kw": {"languages": ["en"]}, "settings": {"DATE_ORDER": "DMY"}}, "must"))
    s = lambda: rnd.choice(["2015-05-12", "", "yesterday", g.string()])  # noqa
    for kw in ({"languages": "en"}, {"languages": 5}, {"languages": {"en": 1}}, {"locales": 1}, {"locales": "en-GB"},
               {"region": 5}, {"region": ["US"]}, {"languages": ["en"], "region": 5}):
        for _ in range(3):
            out.append(({"cls": "b", "s": s(), "formats": None, "kw": kw, "settings": None}, "must"))
    for bad_settings in ("x", 5, ["DATE_ORDER"], 1.5, ("DATE_ORDER", "DMY")):
        for _ in range(3):
            out.append(({"cls": "b", "s": s(), "formats": None, "kw": {}, "settings": bad_settings}, "must"))
    for fm in ("%Y", 5, "%Y-%m-%d"):
        out.append(({"cls": "b", "s": "2015-05-12", "formats": fm, "kw": {"languages": ["en"]}, "settings": None}, "may"))
        out.append(({"cls": "b", "s": g.string(), "formats": fm, "kw": {}, "settings": None}, "may"))
    for ctor in ({"try_previous_locales": 1}, {"use_given_order": "yes"}, {"languages": ["en"], "use_given_order": 1}):
        out.append(({"cls": "b", "s": s(), "formats": None, "kw": ctor, "settings": None, "api": "ddp"}, "must"))
    return out


def bad_language_cases(g):
    rnd = g.rnd
    out = []
    s = lambda: rnd.choice(["2015-05-12", "", "yesterday", "12 mai 2015", g.string()])  # noqa
    for kw in ({"languages": ["xx"]}, {"languages": ["en", "zz"]}, {"locales": ["en-XX"]}, {"locales": ["xx-US"]},
               {"locales": ["fr-CA", "fr-BE"]}, {"languages": ["EN"]}, {"locales": ["en_US"]}, {"languages": ["xx"], "region": "US"}):
        for _ in range(4):
            out.append(({"cls": "c", "s": s(), "formats": None, "kw": kw, "settings": rnd.choice([None, {"DATE_ORDER": "DMY"}])}, "must"))
    out.append(({"cls": "c", "s": "2015", "formats": None, "kw": {"use_given_order": True}, "settings": None, "api": "ddp"}, "must"))
    return out


def invalid_settings(g):
    rnd = g.rnd
    bad = [
        {"FOO": 1}, {"date_order": "DMY"}, {"TIMEZONE ": "UTC"},
        {"DATE_ORDER": "XYZ"}, {"DATE_ORDER": 5}, {"DATE_ORDER": ["DMY"]}, {"DATE_ORDER": "dmy"},
        {"TIMEZONE": 5}, {"TO_TIMEZONE": 5.5}, {"RETURN_AS_TIMEZONE_AWARE": "yes"}, {"RETURN_AS_TIMEZONE_AWARE": 1},
        {"PREFER_MONTH_OF_YEAR": "middle"}, {"PREFER_DAY_OF_MONTH": 1}, {"PREFER_DATES_FROM": "now"}, {"PREFER_DATES_FROM": True},
        {"RELATIVE_BASE": "2015-01-01"}, {"RELATIVE_BASE": 1420070400}, {"STRICT_PARSING": "no"}, {"STRICT_PARSING": 0},
        {"REQUIRE_PARTS": "day"}, {"REQUIRE_PARTS": ["hour"]}, {"REQUIRE_PARTS": ["day", "day"]}, {"REQUIRE_PARTS": ("day",)},
        {"SKIP_TOKENS": "t"}, {"SKIP_TOKENS": ("t",)}, {"NORMALIZE": "yes"}, {"NORMALIZE": 1}, {"RETURN_TIME_AS_PERIOD": "x"},
        {"PARSERS": "timestamp"}, {"PARSERS": ["nope"]}, {"PARSERS": ["timestamp", "timestamp"]}, {"PARSERS": ("timestamp",)},
        {"FUZZY": "y"}, {"PREFER_LOCALE_DATE_ORDER": "y"}, {"DEFAULT_LANGUAGES": "en"}, {"DEFAULT_LANGUAGES": ["xx"]},
        {"DEFAULT_LANGUAGES": ["en", "en"]}, {"LANGUAGE_DETECTION_CONFIDENCE_THRESHOLD": 1.5},
        {"LANGUAGE_DETECTION_CONFIDENCE_THRESHOLD": -0.1}, {"LANGUAGE_DETECTION_CONFIDENCE_THRESHOLD": "0.5"},
        {"LANGUAGE_DETECTION_CONFIDENCE_THRESHOLD": 1}, {"CACHE_SIZE_LIMIT": "10"}, {"CACHE_SIZE_LIMIT": 1.5},
        {"CACHE_SIZE_LIMIT": [1]},
    ]
    return bad


def bcd_cases(g, n_d):
    rnd = g.rnd
    out = wrong_type_cases(g) + bad_language_cases(g)
    bads = invalid_settings(g)
    fmts = ["%Y-%m-%d", "%d %B %Y", "%H:%M"]
    matching = {"%Y-%m-%d": "2015-05-12", "%d %B %Y": "12 May 2015", "%H:%M": "10:45"}
    # (d') an invalid dict met right after its valid twin: same setting names, a wrongly typed value whose str() equals
    # the valid one ("rejected whatever ..." must not depend on an equal-looking configuration having been validated before)
    for i in range(max(40, n_d // 10)):
        valid = {}
        while not any(not isinstance(v, str) for v in valid.values()):
            valid = g.settings(4)
        key = rnd.choice([k for k, v in valid.items() if not isinstance(v, str)])
        twin = dict(valid)
        twin[key] = str(valid[key])
        s = rnd.choice(["12 May 2015", "", "yesterday", "1484823450", g.string()])
        kw = rnd.choice([{}, {"languages": ["en"]}])
        out.append(({"cls": "a", "s": s, "formats": None, "kw": kw, "settings": valid, "api": "parse"}, "must"))
        out.append(({"cls": "d", "s": s, "formats": None, "kw": kw, "settings": twin, "api": rnd.choice(["parse", "ddp"])}, "must"))
    for i in range(n_d):
        bad = dict(rnd.choice(bads))
        if rnd.random() < 0.5:
            # mix the invalid key into an otherwise valid configuration
            for k, v in g.settings(4).items():
                bad.setdefault(k, v)
        k = rnd.random()
        fm = None
        if k < 0.25:
            fm = [rnd.choice(fmts)]
            s = matching[fm[0]]            # a string the raw format shortcut would accept
        elif k < 0.35:
            s = ""
        elif k < 0.5:
            s = rnd.choice(["2015-05-12", "yesterday", "12 May 2015 10:30 EST", "1234567890"])
        else:
            s = g.string()
        kw = g.lang_kwargs(0.5) if rnd.random() < 0.5 else {}
        out.append(({"cls": "d", "s": s, "formats": fm, "kw": kw, "settings": bad, "api": rnd.choice(["parse", "parse", "ddp"])}, "must"))
    return out


# ------------------------------------------------------------------ execution
PERIODS = ("time", "day", "week", "month", "year")


def lib_frame(e):
    tb = traceback.extract_tb(e.__traceback__)
    lib = [f for f in tb if "/dateparser/" in f.filename and "/rv/" not in f.filename]
    f = lib[-1] if lib else tb[-1]
    return "%s:%s" % (f.filename.split("/")[-1], f.name)


def run_call(c):
    """Execute the boundary calls of a case.  Returns (exception or None, problems list)."""
    import dateparser
    from dateparser.date import DateDataParser

    s, fm, kw, st = c["s"], c["formats"], dict(c["kw"]), c["settings"]
    api = c.get("api", "both")
    problems = []
    try:
        if api in ("parse", "both"):
            pkw = {k: v for k, v in kw.items() if k in ("languages", "locales", "region")}
            r = dateparser.parse(s, date_formats=fm, settings=st, **pkw)
            if not (r is None or isinstance(r, datetime)):
                problems.append(("bad-return-type", type(r).__name__))
        if api in ("ddp", "both"):
            p = DateDataParser(settings=st, **kw)
            dd = p.get_date_data(s, fm)
            if dd["period"] not in PERIODS:
                problems.append(("bad-period", repr(dd["period"])))
            if dd["date_obj"] is None and dd["locale"] is not None:
                problems.append(("locale-without-date", repr(dd["locale"])))
            if not (dd["date_obj"] is None or isinstance(dd["date_obj"], datetime)):
                problems.append(("bad-date-type", type(dd["date_obj"]).__name__))
            t = p.get_date_tuple(s, fm)
            same = (t.period == dd["period"] and t.locale == dd["locale"] and
                    (t.date_obj is None) == (dd["date_obj"] is None))
            if same and st and isinstance(st, dict) and st.get("RELATIVE_BASE") is not None and t.date_obj != dd["date_obj"]:
                same = False
            if not same:
                problems.append(("tuple-differs", "%r vs %r" % (t, dd)))
    except Exception as e:  # noqa: everything that escapes is the observation
        return e, problems
    return None, problems


def check_case(ctx, c, mode="must"):
    from dateparser.conf import SettingValidationError

    exc, problems = run_call(c)
    ctx.ran()
    cls = c["cls"]
    cj = {k: enc(v) for k, v in c.items()}
    cj["mode"] = mode
    ctx.nontrivial(cls, repr(cj))
    for kind, detail in problems:
        ctx.violation(cj, detail, "documented result shape", "result-shape:" + kind, {"cls": cls, "kind": kind})
    if cls == "a":
        if exc is not None:
            ctx.violation(cj, exc, "None or datetime", "escape:%s" % type(exc).__name__,
                          {"cls": "a", "exc": type(exc).__name__, "frame": lib_frame(exc)})
        else:
            ctx.count("a:returned")
        return
    want = {"b": TypeError, "c": ValueError, "d": SettingValidationError}[cls]
    if exc is None:
        if mode == "must":
            ctx.violation(cj, "no exception", want.__name__, "not-rejected:%s" % cls, {"cls": cls})
        else:
            ctx.count("%s:accepted-silently(allowed)" % cls)
        return
    if type(exc) is not want:
        ctx.violation(cj, exc, want.__name__, "wrong-exception:%s" % cls,
                      {"cls": cls, "exc": type(exc).__name__, "frame": lib_frame(exc)})
        return
    ctx.count("%s:rejected-with-%s" % (cls, want.__name__))


def run_shard(ctx, desc):
    import dateparser  # noqa

    ac = AnchorCounter(ANCHORS).start()
    cons = ConservationMonitor()
    try:
        rnd = rng(ctx.seed, "C02" + desc["part"], desc["i"])
        g = Gen(rnd)
        if desc["part"] == "a":
            for i in range(desc["n"]):
                c = {"cls": "a", "s": g.string(), "formats": g.formats(), "kw": g.lang_kwargs(), "settings": g.settings() or None}
                check_case(ctx, c)
                if i % 50 == 0:
                    cons.check()
                if i < 3:
                    ctx.sample({k: enc(v) for k, v in c.items()})
        elif desc["part"] == "edge":
            for i in range(desc["n"]):
                c = gen_edge(g)
                check_case(ctx, c)
                if i % 200 == 0:
                    cons.check()
                if i < 2:
                    ctx.sample({k: enc(v) for k, v in c.items()})
        elif desc["part"] == "dst":
            for i in range(desc["n"]):
                c = gen_dst(g)
                check_case(ctx, c)
                ctx.count("dst_cases")
                if i % 200 == 0:
                    cons.check()
                if i < 2:
                    ctx.sample({k: enc(v) for k, v in c.items()})
        else:
            for c, mode in bcd_cases(g, desc["n"]):
                check_case(ctx, c, mode)
    finally:
        ac.stop()
    for k, v in ac.counts.items():
        ctx.count("anchor:" + k, v)
    ctx.count("tripwire:settings-drift-events", len(cons.drift))
    ctx.count("tripwire:checks", cons.checks)


def finalize(merged, tier, seed):
    c = merged["counters"]
    inc = []
    if c.get("a:returned", 0) < 1000 and not any(k.startswith("violation:escape") for k in c):
        inc.append("class (a) returned normally only %d times" % c.get("a:returned", 0))
    for cls, name in (("b", "TypeError"), ("c", "ValueError"), ("d", "SettingValidationError")):
        if c.get("%s:rejected-with-%s" % (cls, name), 0) < 20 and not any(k.startswith("violation:") for k in c):
            inc.append("class (%s) rejected too few cases" % cls)
    # escapes deduplicated by (type, frame)
    classes = {}
    for v in merged["violations"]:
        if v["label"].startswith("escape:"):
            key = (v["features"].get("exc"), v["features"].get("frame"))
            classes[key] = classes.get(key, 0) + 1
    return {"inconclusive": inc, "anchors_hit": {k[7:]: v for k, v in c.items() if k.startswith("anchor:")},
            "escape_classes": ["%s at %s: %d" % (k[0], k[1], n) for k, n in sorted(classes.items(), key=str)]}


def replay_case(ctx, v):
    c = {k: dec(x) for k, x in v["case"].items() if k != "mode"}
    check_case(ctx, c, v["case"].get("mode", "must"))
