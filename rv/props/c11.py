"""C11 — a timezone written in the string yields exactly that offset (table walk)."""
import copy
import pickle
import re as _re
from collections import OrderedDict
from datetime import datetime, timedelta

from ..gen.common import corpus, split_evenly
from ..hooks import AnchorCounter, wrap
from ..util import iso

LEVEL = "exploration"
RULE = ("complete walk of dateparser.timezones.timezone_info_list read as data: every supported UTC offset "
        "x 8 spellings and every abbreviation (upper and lower case) appended to date-time bodies "
        "(quick: 1 body, thorough: 3 bodies + the JavaScript '(ABBR)' tail), languages=['en'] and "
        "autodetection, then a primed pass (each case right after a call that found an overlapping zone spelling: UTC/GMT, the bare "
        "spelling of the same offset, the tail's abbreviation); oracle: aware, utcoffset == listed offset (first listing wins), wall clock == "
        "body, pickle/deepcopy round trip equal in value, offset and tzname. Naivety: every corpus "
        "string in which no table regex matches must parse naive. non-trivial distinct = distinct "
        "(table entry, spelling, body, mode) whose zone was popped by pop_tz_offset_from_string (tap).")
EXHAUSTIVE = {"quick": True, "thorough": True}
ASSUMPTIONS = ["'the listed one' = the abbreviation table of the pinned commit, committed as rv/data/tz_table.json (entries a tree "
               "adds are walked with the tree's own value); a numeric spelling's offset is computed from its digits"]
TIMEOUT = {"quick": 600, "thorough": 1800}

ANCHORS = [("dateparser.timezone_parser", "StaticTzInfo.__getinitargs__"),
           ("dateparser.date_parser", "DateParser.parse"),
           ("dateparser.timezone_parser", "pop_tz_offset_from_string")]

BODIES = [("2015-05-12 10:30", datetime(2015, 5, 12, 10, 30)),
          ("12 May 2015 10:30:45", datetime(2015, 5, 12, 10, 30, 45)),
          ("May 12, 2015 10:30 PM", datetime(2015, 5, 12, 22, 30))]


def table():
    """The supported offsets and the abbreviation table. The authority is the copy committed with the checks (the table of the
    pinned commit): the offset of a numeric spelling is what its digits say and an abbreviation's offset is the one listed for it,
    so a tree that edits or reorders its table does not move the expectation. Entries the tree lists in addition are walked
    too, with the tree's own value."""
    import json
    import os

    with open(os.path.join(os.path.dirname(os.path.dirname(os.path.abspath(__file__))), "data", "tz_table.json")) as f:
        d = json.load(f)
    offsets = []
    for pat, _ in d["offsets"]:
        m = _re.match(r"UTC\\([+-])(\d\d):(\d\d)", pat)
        offsets.append((pat, (1 if m.group(1) == "+" else -1) * (int(m.group(2)) * 3600 + int(m.group(3)) * 60)))
    abbr = OrderedDict((k, list(v)) for k, v in d["abbr"].items())
    try:
        from dateparser.timezones import timezone_info_list

        have = {p for p, _ in offsets}
        for pat, off in timezone_info_list[0]["timezones"]:
            if pat not in have and _re.match(r"UTC\\([+-])(\d\d):(\d\d)", pat):
                offsets.append((pat, off))
        for info in timezone_info_list[1:]:
            for name, off in info["timezones"]:
                if name not in d["abbr"]:
                    abbr.setdefault(name, []).append(off)
    except Exception:
        pass
    return offsets, abbr


def spellings(pat):
    m = _re.match(r"UTC\\([+-])(\d\d):(\d\d)", pat)
    sg, hh, mm = m.groups()
    h = str(int(hh))
    sp = OrderedDict()
    sp["+HHMM"] = sg + hh + mm
    sp["+HH:MM"] = sg + hh + ":" + mm
    sp["UTC+HH:MM"] = "UTC" + sg + hh + ":" + mm
    sp["GMT+HH:MM"] = "GMT" + sg + hh + ":" + mm
    sp["UTC+H[:MM]"] = "UTC" + sg + h + (":" + mm if mm != "00" else "")
    sp["GMT+H[:MM]"] = "GMT" + sg + h + (":" + mm if mm != "00" else "")
    sp["UTC+HHMM"] = "UTC" + sg + hh + mm
    sp["GMT+HHMM"] = "GMT" + sg + hh + mm
    if mm == "00":
        sp["UTC+HH"] = "UTC" + sg + hh
    return sp


def all_cases(tier):
    offsets, abbr = table()
    bodies = [0] if tier == "quick" else [0, 1, 2]
    cases = []
    for pat, off in offsets:
        for spn, sp in spellings(pat).items():
            for bi in bodies:
                cases.append(("offset", pat, spn, sp, off, bi, ""))
                # only the UTC/GMT-prefixed spellings accept trailing text (their table regex ends in '.*');
                # a bare +HH:MM must end the string ('(.)%s$'), so '+02:00 (CEST)' is not an accepted spelling
                if tier == "thorough" and spn in ("UTC+HHMM", "GMT+HHMM", "GMT+HH:MM", "UTC+HH:MM"):
                    cases.append(("offset", pat, spn, sp, off, bi, " (CEST)"))
    for name, offs in abbr.items():
        for nm in (name, name.lower()):
            for bi in bodies:
                cases.append(("abbr", name, "as-listed" if nm == name else "lower", nm, offs[0], bi, ""))
    return cases


def shards(tier, seed):
    n = len(all_cases(tier))
    k = 14
    out = [{"part": "walk", "i": i, "k": k} for i in range(k)]
    out += [{"part": "naive", "i": i, "k": 2} for i in range(2)]
    return out


_POP = []
_TAP_OK = True   # False when the tapped function no longer exists: a correct result then counts without the confirmation


def install_tap():
    def after(token, args, kwargs, result, exc):
        if exc is None:
            _POP.append(result[1])

    global _TAP_OK
    _TAP_OK = wrap("dateparser.timezone_parser", "pop_tz_offset_from_string", None, after,
         name="tap:pop_tz_offset_from_string",
         rebind=[("dateparser.date_parser", "pop_tz_offset_from_string"),
                 ("dateparser.date", "pop_tz_offset_from_string"),
                 ("dateparser.freshness_date_parser", "pop_tz_offset_from_string"),
                 ("dateparser.languages.locale", "pop_tz_offset_from_string")]) is not None


def primer_for(case, n):
    """A zone-bearing string parsed right before the case in the primed pass: an abbreviation that is a prefix of the
    offset spellings, the bare spelling of the same offset, the abbreviation named in the tail, or an unrelated zone."""
    kind, entry, spn, spelled, off, bi, tail = case
    body = BODIES[bi][0]
    choices = ["UTC", "GMT", "utc", "EST", "+0000"]
    if kind == "offset":
        sp = spellings(entry)
        choices += [sp["+HHMM"], sp["+HH:MM"], sp["UTC+HHMM"]]
    if tail:
        choices += [tail.strip(" ()")] * 2
    return body + " " + choices[n % len(choices)]


BODY_FORMATS = ["%Y-%m-%d %H:%M", "%d %B %Y %H:%M:%S", "%B %d, %Y %I:%M %p"]


def check_case(ctx, case, mode, primer=None, with_formats=False):
    import dateparser

    kind, entry, spn, spelled, off, bi, tail = case
    body, exp = BODIES[bi]
    s = body + " " + spelled + tail
    # optionally the caller also supplies the format of the body (which does not mention the zone): the zone written in the
    # string still has to come out
    fkw = {"date_formats": [BODY_FORMATS[bi]]} if with_formats else {}
    if primer is not None:
        try:
            dateparser.parse(primer, languages=["en"]) if mode == "en" else dateparser.parse(primer)
        except Exception:
            ctx.count("primer:raised(C02's subject)")
        ctx.count("primed_cases")
    del _POP[:]
    try:
        r = dateparser.parse(s, languages=["en"], **fkw) if mode == "en" else dateparser.parse(s, **fkw)
    except Exception as e:
        r = e
    ctx.ran()
    popped = [p for p in _POP if p is not None]
    cj = {"kind": kind, "entry": entry, "spelling": spn, "string": s, "mode": mode, "body": bi, "tail": tail,
          "offset_s": off, "primer": primer, "with_formats": with_formats}
    want = timedelta(seconds=off)
    why = None
    if not isinstance(r, datetime):
        why = "no-result"
    elif r.tzinfo is None:
        why = "naive"
    elif r.utcoffset() != want:
        why = "wrong-offset"
    elif r.replace(tzinfo=None) != exp:
        why = "wrong-wall-clock"
    else:
        try:
            r2 = pickle.loads(pickle.dumps(r))
            ctx.count("pickle_roundtrips_by_harness")
            r3 = copy.deepcopy(r)
            r4 = copy.copy(r)
            for rr in (r2, r3, r4):
                if not (rr == r and rr.utcoffset() == r.utcoffset() and rr.tzname() == r.tzname()
                        and rr.replace(tzinfo=None) == exp):
                    why = "pickle-copy-changed"
        except Exception as e:
            why = "pickle-copy-raised:%s" % type(e).__name__
    if why:
        stage = "not-popped" if not popped else "popped"
        ctx.violation(cj, r, {"offset_s": off, "wall": iso(exp)}, "tz-in-string:" + why,
                      {"kind": kind, "entry": entry, "spelling": spn, "stage": stage,
                       "tail": bool(tail)})
        return
    if popped or not _TAP_OK:
        ctx.nontrivial(kind, entry, spn, bi, tail, mode, primer, with_formats)
        if with_formats:
            ctx.count("with_body_format_ok")
        ctx.count("popped_ok")
    else:
        ctx.count("off_path:not-popped-yet-correct")
    ctx.sample({"string": s, "result": iso(r), "tzname": r.tzname()}, limit=2)


def run_shard(ctx, desc):
    import dateparser  # noqa

    install_tap()
    ac = AnchorCounter(ANCHORS).start()
    try:
        if desc["part"] == "walk":
            cases = all_cases(ctx.tier)[desc["i"]::desc["k"]]
            for c in cases:
                check_case(ctx, c, "en")
                check_case(ctx, c, "auto")
                ctx.count("entries:%s" % c[0])
            # the same zone when the caller supplies the body's format
            for n, c in enumerate(cases):
                if ctx.tier == "quick" and n % 3:
                    continue
                check_case(ctx, c, "en" if n % 2 else "auto", with_formats=True)
            # primed pass: the same cases, each right after a call that found another (overlapping) zone spelling
            for n, c in enumerate(cases):
                if c[0] == "abbr" and ctx.tier == "quick" and n % 3:
                    continue
                check_case(ctx, c, "en" if n % 2 else "auto", primer=primer_for(c, n // 2 + ctx.seed))
        else:
            run_naive(ctx, desc)
    finally:
        ac.stop()
    for k, v in ac.counts.items():
        ctx.count("anchor:" + k, v)


def no_zone_in(s):
    """Decided on the table read as data: after trimming, none of the table regexes matches."""
    from ..gen.common import tz_table

    _tz_offsets = tz_table()
    try:
        from dateparser.date import sanitize_date
    except ImportError:     # renamed in the tree under test: the raw and stripped forms are still examined
        sanitize_date = lambda x: x  # noqa

    for cand in (s, s.strip(), sanitize_date(s)):
        for name, info in _tz_offsets:
            if info["regex"].search(cand):
                return False
    return True


def check_naive(ctx, s, lang):
    import dateparser

    B = datetime(2012, 11, 13, 14, 15, 16)
    try:
        r = dateparser.parse(s, languages=[lang] if lang else None, settings={"RELATIVE_BASE": B})
    except Exception:
        ctx.count("naive:raised(C02's subject)")
        return
    ctx.ran()
    if r is None:
        ctx.count("naive:unparsed")
        return
    ctx.nontrivial("naive", s, lang)
    ctx.count("naive:checked")
    if r.tzinfo is not None:
        ctx.violation({"kind": "naive", "string": s, "language": lang}, r, "naive datetime",
                      "aware-without-zone", {"language": lang})


def run_naive(ctx, desc):
    rows = corpus()[desc["i"]::desc["k"]]
    for s, fn, lang in rows:
        if not no_zone_in(s):
            ctx.count("naive:has-zone-skipped")
            continue
        check_naive(ctx, s, lang)


def finalize(merged, tier, seed):
    c = merged["counters"]
    inc = []
    if c.get("popped_ok", 0) < 500:
        inc.append("zone popped and verified only %d times" % c.get("popped_ok", 0))
    if c.get("naive:checked", 0) < 500:
        inc.append("naive-by-default checked on only %d strings" % c.get("naive:checked", 0))
    if c.get("pickle_roundtrips_by_harness", 0) < 500:
        inc.append("only %d results were pickled and copied" % c.get("pickle_roundtrips_by_harness", 0))
    return {"inconclusive": inc, "anchors_hit": {k[7:]: v for k, v in c.items() if k.startswith("anchor:")}}


def replay_case(ctx, v):
    install_tap()
    c = v["case"]
    if c["kind"] == "naive":
        check_naive(ctx, c["string"], c["language"])
        return
    for case in all_cases("thorough"):
        if (case[0], case[1], case[2], case[5], case[6]) == (c["kind"], c["entry"], c["spelling"], c["body"], c["tail"]):
            check_case(ctx, case, c["mode"], primer=c.get("primer"), with_formats=bool(c.get("with_formats")))
            return
    raise SystemExit("case not found in the current table")
