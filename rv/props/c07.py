"""C07 — DATE_ORDER and the locale's own order decide numeric dates."""
import calendar
from datetime import datetime

from ..gen.common import rng
from ..hooks import AnchorCounter, wrap, bump
from ..monitors import PathTap
from ..oracles import vocab
from ..util import iso

LEVEL = "exploration"
RULE = ("explicit order: 6 orders x separators '-', '/', '.', ' ' x (y,m,d) with zero-padded years 1..999, 1000..9999 and "
        "boundary years, month-end days, padded/unpadded fields, optional HH:MM / HH:MM:SS suffix x 20 languages x "
        "PREFER_LOCALE_DATE_ORDER on/off (must be irrelevant); locale order: complete walk of all 205 languages and 299 "
        "regional locales with discriminating dates (d<=12, m<=12, m!=d), 3 separators, PREFER_LOCALE_DATE_ORDER on/off; "
        "after each locale, calls that enter its parsers with nothing to parse (own skip words, blank, impossible date; no explicit "
        "order) followed by fresh order-less-locale (tl) reads; oracle = field copy, locale order read from the shipped data files by a private loader (MDY when absent/off). Tripwire: "
        "Settings.DATE_ORDER left rewritten on exit of _try_parser triggers an immediate fresh read of the order-less locale. non-trivial distinct = distinct "
        "(language/locale, order, string) accepted by the absolute-time parser (path tap).")
ASSUMPTIONS = ["only strings whose reading under the supplied order is a valid date are generated"]
TIMEOUT = {"quick": 600, "thorough": 3600}
ANCHORS = [("dateparser.parser", "resolve_date_order"), ("dateparser.parser", "_parser._parse"),
           ("dateparser.date", "_DateLocaleParser._try_parser")]
ORDERS = ["DMY", "DYM", "MDY", "MYD", "YDM", "YMD"]
SEPS = ["-", "/", ".", " "]
LANGS = ["en", "fr", "de", "ja", "ru", "zh", "hu", "es", "it", "pt", "nl", "pl", "tr", "sv", "fi", "cs", "ko", "ar", "he", "id"]
N_EXPLICIT = {"quick": 42000, "thorough": 1000000}


def shards(tier, seed):
    k = 12
    out = [{"part": "explicit", "i": i, "n": N_EXPLICIT[tier] // k} for i in range(k)]
    out += [{"part": "locale", "i": i, "k": 4} for i in range(4)]
    return out


def install_tripwire(ctx):
    def before(args, kwargs):
        return args[0]._settings.DATE_ORDER

    def after(token, args, kwargs, result, exc):
        now = args[0]._settings.DATE_ORDER
        if now != token:
            # not a verdict by itself (the settings object might be private to the call in another design): it triggers
            # an immediate read of the order-less locale through fresh parsers, where a leaked order is observable
            ctx.count("tripwire:DATE_ORDER-left-rewritten")
            _TRIP.append((args[0].locale.shortname, args[0].date_string))

    wrap("dateparser.date", "_DateLocaleParser._try_parser", before, after, name="post:_try_parser restores DATE_ORDER")


_TRIP = []


def probe_after_trip(ctx):
    if not _TRIP:
        return
    loc, s = _TRIP[0]
    del _TRIP[:]
    for pl in (True, False):
        check_locale(ctx, {"kind": "locale", "lang": "tl", "loc": "tl", "pl": pl, "y": 2015, "m": 2, "d": 3, "sep": "/",
                           "fresh": True, "after": loc})
        ctx.count("tripwire_probes")


_OFFSETS = None


def reads_as_offset(s):
    """Does the tail of the string spell one of the UTC offsets of the library's table (read as data)?  Decides only
    which known-finding a deviation belongs to."""
    global _OFFSETS
    import re

    if _OFFSETS is None:
        from dateparser.timezones import timezone_info_list

        _OFFSETS = set()
        for pat, off in timezone_info_list[0]["timezones"]:
            m = re.match(r"UTC\\([+-])(\d\d):(\d\d)", pat)
            if m:
                _OFFSETS.add(m.group(1) + m.group(2) + m.group(3))
    m = re.search(r"([+-]\d{4})$", s)
    return bool(m and m.group(1) in _OFFSETS)


def render(o, y, m, d, sep, pad):
    f = {"D": ("%02d" if pad else "%d") % d, "M": ("%02d" if pad else "%d") % m, "Y": "%04d" % y}
    return sep.join(f[c] for c in o)


_P = {}


def parser_for(**kw):
    from dateparser.date import DateDataParser

    key = repr(sorted((k, repr(v)) for k, v in kw.items()))
    if key not in _P:
        _P[key] = DateDataParser(**kw)
    return _P[key]


def check_explicit(ctx, c):
    ctx.remember(check_explicit, c)
    o, y, m, d, sep, pad, tsuf, lang, pl = c["order"], c["y"], c["m"], c["d"], c["sep"], c["pad"], c["tsuf"], c["lang"], c["pl"]
    s = render(o, y, m, d, sep, pad) + tsuf
    exp = datetime(y, m, d)
    if tsuf:
        t = [int(x) for x in tsuf.strip().split(":")]
        exp = exp.replace(hour=t[0], minute=t[1], second=t[2] if len(t) > 2 else 0)
    PathTap.reset()
    try:
        if (y + m + d) % 3 == 0:
            # the function entry point (its own settings handling) for a third of the cases
            import dateparser

            r = dateparser.parse(s, languages=[lang], settings={"DATE_ORDER": o, "PREFER_LOCALE_DATE_ORDER": pl})
            ctx.count("via:dateparser.parse")
        else:
            p = parser_for(languages=[lang], settings={"DATE_ORDER": o, "PREFER_LOCALE_DATE_ORDER": pl})
            r = p.get_date_data(s)["date_obj"]
            ctx.count("via:DateDataParser")
    except Exception as e:
        r = e
    ctx.ran()
    path = PathTap.accepted("absolute-time")
    if r != exp:
        ctx.violation(dict(c, string=s), r, exp, "explicit-order",
                      {"sep": sep, "year_last": o.endswith("Y"), "suffix": bool(tsuf), "lang": lang,
                       "year_reads_as_offset": bool(sep == "-" and o.endswith("Y") and not tsuf and reads_as_offset(s)),
                       "order": o, "path": path})
        return
    if path != "absolute-time":
        ctx.count("off_path:%s" % path)
        return
    ctx.count("on_path:absolute-time")
    probe_after_trip(ctx)
    ctx.nontrivial("explicit", lang, o, s, pl)
    ctx.sample({"string": s, "DATE_ORDER": o, "language": lang, "result": iso(r)}, limit=2)


def gen_explicit(rnd):
    y = rnd.choice([rnd.randrange(1000, 10000), rnd.randrange(1, 1000), rnd.choice([1, 12, 31, 32, 99, 100, 1100, 1200, 1999, 2000, 2024, 9999])])
    m = rnd.randrange(1, 13)
    d = rnd.randrange(1, calendar.monthrange(y, m)[1] + 1)
    if rnd.random() < 0.3:
        d = calendar.monthrange(y, m)[1]
    return {"kind": "explicit", "order": rnd.choice(ORDERS), "y": y, "m": m, "d": d, "sep": rnd.choice(SEPS),
            "pad": rnd.random() < 0.7, "tsuf": rnd.choice(["", "", " 10:45", " 23:59:59"]),
            "lang": rnd.choice(LANGS) if rnd.random() < 0.6 else "en", "pl": rnd.random() < 0.5}


def all_locales():
    from dateparser.data.languages_info import language_locale_dict, language_order

    out = []
    for lang in language_order:
        out.append((lang, lang))
        for loc in language_locale_dict[lang]:
            out.append((lang, loc))
    return out


def check_locale(ctx, c):
    if not c.get("after"):
        ctx.remember(check_locale, c)
    lang, loc, pl, y, m, d, sep = c["lang"], c["loc"], c["pl"], c["y"], c["m"], c["d"], c["sep"]
    # the locale's own order is read from the shipped data files by the oracle's private loader (own overlay rule), never
    # from a Locale object the library built: a loader that builds a regional locale wrongly would fool the latter
    lo = vocab.locale_info(loc, lang).get("date_order")
    o = (lo or "MDY") if pl else "MDY"
    s = render(o, y, m, d, sep, True)
    kw = {"languages": [lang]} if loc == lang else {"locales": [loc]}
    if c.get("fresh"):
        from dateparser.date import DateDataParser

        # a parser (and settings object) created only now, with default settings when pl is on
        p = DateDataParser(settings=None if pl else {"PREFER_LOCALE_DATE_ORDER": False}, **kw)
    else:
        p = parser_for(settings={"PREFER_LOCALE_DATE_ORDER": pl}, **kw)
    PathTap.reset()
    try:
        dd = p.get_date_data(s)
        r = dd["date_obj"]
    except Exception as e:
        r = e
    ctx.ran()
    exp = datetime(y, m, d)
    path = PathTap.accepted("absolute-time")
    if r != exp:
        ctx.violation(dict(c, string=s, locale_order=lo), r, exp, "locale-order",
                      {"locale": loc, "locale_order": lo, "pl": pl, "sep": sep, "path": path,
                       "year_last": o.endswith("Y"), "suffix": False,
                       "year_reads_as_offset": bool(sep == "-" and o.endswith("Y") and reads_as_offset(s))})
        return
    if path != "absolute-time":
        ctx.count("off_path:%s" % path)
        return
    ctx.count("on_path:absolute-time")
    ctx.count("locale_order:%s" % lo)
    ctx.nontrivial("locale", loc, pl, s)


def disturb(ctx, lang, loc):
    """Calls that enter the parsers of this locale with nothing to parse (its own skip words, blanks, an impossible date),
    made through the public API with no explicit DATE_ORDER; then the order-less locale is read with fresh parsers: the
    locale's order must not outlive the call that used it."""
    import dateparser

    info = vocab.locale_info(loc, lang)
    words = [w for w in (info.get("skip") or []) if isinstance(w, str) and w.strip()][:2] + ["", "32/13/2015"]
    kw = {"languages": [lang]} if loc == lang else {"locales": [loc]}
    for w in words:
        for st in (None, {"PREFER_DATES_FROM": "past"}):
            try:
                dateparser.parse(w, settings=st, **kw)
            except Exception:
                ctx.count("disturber:raised(C02's subject)")
            ctx.count("disturber_calls")
    for pl in (True, False):
        check_locale(ctx, {"kind": "locale", "lang": "tl", "loc": "tl", "pl": pl, "y": 2015, "m": 2, "d": 3, "sep": "/",
                           "fresh": True, "after": loc})
        ctx.count("victim_checks")


MENTION_LANGS = ["fr", "de", "es", "ru", "th", "it", "nl", "pl", "pt", "tr", "id", "sv", "ja", "hu", "fi"]


def run_mentions(ctx):
    """Settings with the same effective values that differ in WHICH keys the caller wrote: {'DATE_ORDER': 'MDY'} (an explicit
    order that happens to equal the default), {'NORMALIZE': True}, {} / no settings.  The explicit one must read numeric dates
    as MDY in every language, the others in the locale's own order -- for long-lived parsers too, whatever other calls with
    look-alike settings are made in between."""
    import dateparser
    from dateparser.date import DateDataParser

    spellings = [{"DATE_ORDER": "MDY"}, {"NORMALIZE": True}, {"PREFER_DATES_FROM": "current_period", "DATE_ORDER": "MDY"}, None,
                 {"PREFER_DATES_FROM": "current_period"}]
    s, (y, a, b) = "02/03/2015", (2015, 2, 3)
    for lang in MENTION_LANGS:
        lo = vocab.locale_info(lang, lang).get("date_order", "MDY")
        if lo not in ("DMY", "MDY", "YMD"):
            continue
        by_locale = {"DMY": datetime(y, b, a), "MDY": datetime(y, a, b), "YMD": None}[lo]
        if by_locale is None:
            continue
        live = [DateDataParser(languages=[lang], settings=sp) if sp is not None else DateDataParser(languages=[lang])
                for sp in spellings]
        for rnd_i in range(3):
            order = list(range(len(spellings)))
            order = order[rnd_i:] + order[:rnd_i]
            for i in order:
                sp = spellings[i]
                exp = datetime(y, a, b) if sp and "DATE_ORDER" in sp else by_locale
                for how in ("long-lived", "function"):
                    try:
                        if how == "function":
                            r = dateparser.parse(s, languages=[lang], settings=sp) if sp is not None else \
                                dateparser.parse(s, languages=[lang])
                        else:
                            r = live[i].get_date_data(s)["date_obj"]
                    except Exception as e:
                        r = e
                    ctx.ran()
                    if r != exp:
                        ctx.violation({"kind": "mention", "lang": lang, "settings_as_written": sp, "how": how, "round": rnd_i,
                                       "string": s, "locale_order": lo}, r, exp, "explicit-order" if sp and "DATE_ORDER" in sp
                                      else "locale-order", {"kind": "mention", "lang": lang, "how": how,
                                                            "explicit": bool(sp and "DATE_ORDER" in sp)})
                        return
                    ctx.count("mention_ok:%s" % how)
                    ctx.nontrivial("mention", lang, repr(sp), how, rnd_i)


def run_shard(ctx, desc):
    import dateparser  # noqa

    PathTap.install()
    install_tripwire(ctx)
    ac = AnchorCounter(ANCHORS).start()
    try:
        if desc["part"] == "explicit":
            rnd = rng(ctx.seed, "C07", desc["i"])
            # fixed stratum: the year-as-offset family and the boundary years, every order/separator
            if desc["i"] == 0:
                for o in ORDERS:
                    for sep in SEPS:
                        for (y, m, d) in [(1100, 9, 30), (1, 1, 1), (9999, 12, 31), (2000, 2, 29), (999, 12, 31), (1200, 5, 6)]:
                            check_explicit(ctx, {"kind": "explicit", "order": o, "y": y, "m": m, "d": d, "sep": sep,
                                                 "pad": True, "tsuf": "", "lang": "en", "pl": True})
            if desc["i"] == 1:
                run_mentions(ctx)
            for _ in range(desc["n"]):
                check_explicit(ctx, gen_explicit(rnd))
        else:
            locs = all_locales()[desc["i"]::desc["k"]]
            dates = [(2015, 2, 3), (1999, 11, 12), (2020, 12, 1)] if ctx.tier == "quick" else \
                [(2015, 2, 3), (1999, 11, 12), (2020, 12, 1), (1987, 1, 12), (2031, 7, 4), (800, 3, 9)]
            for lang, loc in locs:
                for pl in (True, False):
                    for (y, m, d) in dates:
                        for sep in ("-", "/", "."):
                            check_locale(ctx, {"kind": "locale", "lang": lang, "loc": loc, "pl": pl, "y": y, "m": m, "d": d, "sep": sep})
                disturb(ctx, lang, loc)
                probe_after_trip(ctx)
            ctx.sample({"locales_walked": [l for _, l in locs[:8]], "n": len(locs)})
        ctx.reask()
    finally:
        ac.stop()
    for k, v in ac.counts.items():
        ctx.count("anchor:" + k, v)


def finalize(merged, tier, seed):
    c = merged["counters"]
    inc = []
    if c.get("on_path:absolute-time", 0) < 5000:
        inc.append("absolute-time path reached only %d times" % c.get("on_path:absolute-time", 0))
    orders_seen = [k for k in c if k.startswith("locale_order:")]
    if len(orders_seen) < 3:
        inc.append("locale walk saw fewer than 3 distinct locale orders: %s" % orders_seen)
    return {"inconclusive": inc, "anchors_hit": {k[7:]: v for k, v in c.items() if k.startswith("anchor:")}}


def replay_case(ctx, v):
    PathTap.install()
    install_tripwire(ctx)
    c = {k: x for k, x in v["case"].items() if k not in ("string", "locale_order")}
    if c.get("after"):
        lang = c["after"].split("-")[0] if c["after"] not in [l for l, _ in all_locales()] else c["after"]
        for lg, lc in all_locales():
            if lc == c["after"]:
                disturb(ctx, lg, lc)
        return
    if c["kind"] == "mention":
        run_mentions(ctx)
        return
    if c["kind"] == "explicit":
        check_explicit(ctx, c)
    elif c["kind"] == "locale":
        # the walk reads a language before its regional locales: part of the witness
        from dateparser.date import DateDataParser

        try:
            DateDataParser(languages=[c["lang"]]).get_date_data("1/2/2003")
        except Exception:
            pass
        check_locale(ctx, c)
    else:
        raise SystemExit("tripwire events are replayed by re-running the check")
