"""C09 — PREFER_DATES_FROM selects the past/future occurrence, keeping named parts."""
import calendar
from datetime import datetime, timedelta, timezone

from ..gen.common import MN, WN, dst_edges, dst_wall_case, rng
from ..hooks import AnchorCounter
from ..monitors import PathTap
from ..util import iso, parse_iso

LEVEL = "exploration"
RULE = ("[+ DST stratum: time-only strings inside DST gaps/folds of 16 zones, reference around the transition] reference datetimes 1971-2066 (first/last two days of months, Dec 31/Jan 1, leap days, times 00:00/23:59/uniform) x "
        "strings {weekday name full/abbr, month name, 'D Month' incl. 29 February, 'D Month HH:MM' incl. the reference's own "
        "day, 'HH:MM', 'D Month YY'} x 3 preferences; thorough additionally walks EVERY day of 1971-2066 x 7 weekdays x 3 "
        "preferences. Oracle: exact date for weekday-only and (TIMEZONE=UTC) time-only strings; named parts + direction/"
        "period inequality otherwise; time-only under non-UTC TIMEZONE: time of day preserved and direction holds under one "
        "of the two readings of the naive reference. non-trivial distinct = distinct (string, reference, preference, zone) "
        "accepted by the absolute-time parser (path tap).")
ASSUMPTIONS = ["'29 February' with current_period is required to stay in the reference year only when that year is leap",
               "two-digit years asserted for reference years 1970..2067 only"]
TIMEOUT = {"quick": 600, "thorough": 3600}
ANCHORS = [("dateparser.parser", "_parser._correct_for_time_frame"), ("dateparser.parser", "_parser._get_correct_leap_year"),
           ("dateparser.parser", "_parser._correct_for_month"), ("dateparser.parser", "_parser._correct_for_day")]
PREFS = ["past", "future", "current_period"]
ZONES = ["UTC", "UTC", "UTC", "+0530", "-0800", "America/New_York", "Asia/Kolkata", "Pacific/Kiritimati", "Pacific/Pago_Pago",
         "Europe/London", "Australia/Lord_Howe"]
DST_ZONES = ["America/New_York", "Europe/London", "Europe/Berlin", "Australia/Sydney", "Australia/Lord_Howe", "America/Sao_Paulo",
             "America/St_Johns", "Pacific/Auckland", "Asia/Tehran", "Africa/Cairo", "America/Havana", "Atlantic/Azores"]
N_RANDOM = {"quick": 70000, "thorough": 900000}
N_DST = {"quick": 6000, "thorough": 120000}


def shards(tier, seed):
    out = [{"part": "random", "i": i, "n": N_RANDOM[tier] // 12} for i in range(12)]
    out += [{"part": "dst", "i": i, "n": N_DST[tier] // 2} for i in range(2)]
    out += [{"part": "aware", "i": 0, "n": N_DST[tier] // 3}]
    out += [{"part": "ownzone", "i": 0, "n": N_DST[tier] // 2}]
    if tier == "thorough":
        for y0 in range(1971, 2067, 4):
            out.append({"part": "everyday", "y0": y0, "y1": min(y0 + 4, 2067)})
    else:
        out.append({"part": "everyday", "y0": 2019, "y1": 2021})
    return out


_NAMES = {}


def names_of(lang):
    """(month names, weekday names) of a language: first listed spelling that resolves on its own (data files + a probe)."""
    if lang == "en":
        return MN, WN
    if lang not in _NAMES:
        from dateparser.date import DateDataParser

        from ..oracles import vocab

        info = vocab.locale_info(lang, lang)
        mm = vocab.meaning_map(info, True)
        probe = DateDataParser(languages=[lang], settings={"RELATIVE_BASE": datetime(2021, 6, 16, 10, 30)})
        mons, wds = [], []
        for i, k in enumerate(vocab.MONTHS):
            got = None
            for w in info.get(k) or []:
                try:
                    if not any(ch.isdigit() for ch in w) and mm.get(vocab.lookup_form(w, True)) == {k} and \
                            probe.get_date_data("13 %s 2015" % w)["date_obj"] == datetime(2015, i + 1, 13):
                        got = w
                        break
                except Exception:
                    pass
            mons.append(got)
        for k in vocab.WEEKDAYS:
            got = None
            for w in info.get(k) or []:
                try:
                    if not any(ch.isdigit() for ch in w) and mm.get(vocab.lookup_form(w, True)) == {k} and \
                            probe.get_date_data(w)["date_obj"] is not None:
                        got = w
                        break
                except Exception:
                    pass
            wds.append(got)
        _NAMES[lang] = (mons, wds) if all(mons) and all(wds) else (MN, WN)
    return _NAMES[lang]


# leap years right before a century that is not one, such centuries themselves, and their neighbours: where "the previous /
# next 29 February" is eight years away
LEAP_EDGE_YEARS = [1796, 1800, 1804, 1896, 1900, 1904, 2096, 2100, 2104, 2196, 2200, 2000, 1996, 2004]


def gen_base(rnd):
    by, bm = rnd.randrange(1971, 2067), rnd.randrange(1, 13)
    ml = calendar.monthrange(by, bm)[1]
    k = rnd.random()
    if k < 0.1:
        by, bm, bd = rnd.choice([1972, 2000, 2024, 2064]), 2, 29
    elif k < 0.2:
        bm, bd = rnd.choice([(12, 31), (1, 1)])
    else:
        bd = rnd.choice([1, 2, ml, ml - 1, rnd.randrange(1, ml + 1)])
    return datetime(by, bm, bd, rnd.choice([0, 23, rnd.randrange(24)]), rnd.choice([0, 59, rnd.randrange(60)]))


def gen_case(rnd):
    b = gen_base(rnd)
    c = {"base": iso(b), "pref": rnd.choice(PREFS), "kind": rnd.choice(["wd", "wd", "month", "dm", "dmt", "time", "time", "yy"]),
         "zone": "UTC", "pmoy": "current"}
    k = c["kind"]
    # a fifth of the cases in another language (its own date order is then in force) and/or with the settings given as a
    # Settings object instead of a dict
    c["lang"] = rnd.choice(["fr", "de", "es"]) if rnd.random() < 0.2 and k != "yy" else "en"
    c["inst"] = rnd.random() < 0.2
    MNl, WNl = names_of(c["lang"])
    if k == "wd":
        w = rnd.randrange(7)
        c["w"] = w
        c["s"] = WNl[w] if rnd.random() < 0.7 or c["lang"] != "en" else WN[w][:3]
        if rnd.random() < 0.05:
            c["pmoy"] = rnd.choice(["first", "last"])
    elif k == "month":
        c["m"] = b.month if rnd.random() < 0.35 else rnd.randrange(1, 13)
        c["s"] = MNl[c["m"] - 1]
        # the day preference fills the day of a month-only string; the direction must hold for the date actually returned
        c["pdom"] = rnd.choice(["current", "current", "first", "last"])
    elif k in ("dm", "dmt"):
        m = rnd.randrange(1, 13)
        d = rnd.randrange(1, calendar.monthrange(2000, m)[1] + 1)
        if rnd.random() < 0.2:
            m, d = b.month, b.day
        if rnd.random() < 0.08:
            m, d = 2, 29
            if rnd.random() < 0.5:
                # reference years around a century that is not a leap year
                yy = rnd.choice(LEAP_EDGE_YEARS)
                b = b.replace(year=yy, day=min(b.day, 28))
                c["base"] = iso(b)
        c["m"], c["d"] = m, d
        c["s"] = "%d %s" % (d, MNl[m - 1])
        if k == "dmt":
            c["h"], c["mi"] = rnd.randrange(24), rnd.randrange(60)
            c["s"] += " %02d:%02d" % (c["h"], c["mi"])
    elif k == "time":
        c["h"], c["mi"] = rnd.randrange(24), rnd.randrange(60)
        if rnd.random() < 0.1:
            c["h"], c["mi"] = b.hour, b.minute
        c["s"] = "%02d:%02d" % (c["h"], c["mi"])
        if rnd.random() < 0.15 and (c["h"] > 12 or c["mi"] > 12):
            c["s"] = "%02d.%02d" % (c["h"], c["mi"])      # hours and minutes separated by a period (cannot be day.month)
        c["zone"] = rnd.choice(ZONES)
    else:
        c["yy"], c["m"], c["d"] = rnd.randrange(100), rnd.randrange(1, 13), rnd.randrange(1, 29)
        c["s"] = "%d %s %02d" % (c["d"], MN[c["m"] - 1], c["yy"])
    return c


def month_reset(exp, b, pmoy):
    pm = {"current": b.month, "first": 1, "last": 12}[pmoy]
    try:
        return exp.replace(month=pm)
    except ValueError:
        return exp.replace(month=12)


def check_case(ctx, c):
    from dateparser.date import DateDataParser

    ctx.remember(check_case, c)
    b = parse_iso(c["base"])
    pref, kind, s = c["pref"], c["kind"], c["s"]
    st = {"RELATIVE_BASE": b, "PREFER_DATES_FROM": pref, "TIMEZONE": c["zone"]}
    if c["pmoy"] != "current":
        st["PREFER_MONTH_OF_YEAR"] = c["pmoy"]
    if c.get("pdom", "current") != "current":
        st["PREFER_DAY_OF_MONTH"] = c["pdom"]
    lang = c.get("lang", "en")
    if c.get("inst"):
        from dateparser.conf import settings as default_settings

        st = default_settings.replace(**st)
        ctx.count("settings-as:Settings-object")
    PathTap.reset()
    try:
        if (b.day + b.minute) % 3 == 0:
            import dateparser

            r = dateparser.parse(s, languages=[lang], settings=st)
            ctx.count("via:dateparser.parse")
        else:
            r = DateDataParser(languages=[lang], settings=st).get_date_data(s)["date_obj"]
            ctx.count("via:DateDataParser")
    except Exception as e:
        r = e
    ctx.ran()
    path = PathTap.accepted("absolute-time")
    feats = {"kind": kind, "pref": pref, "path": path, "zone_utc": c["zone"] == "UTC"}
    if lang != "en":
        ctx.count("language:%s" % lang)
    if c.get("pdom", "current") != "current":
        feats["pdom"] = c["pdom"]
    why, exp = None, None
    if not isinstance(r, datetime):
        why = "no-result"
    elif kind == "wd":
        w = c["w"]
        b0 = b.replace(hour=0, minute=0, second=0, microsecond=0)
        if pref == "past":
            exp = b0 - timedelta(days=(b.weekday() - w) % 7 or 7)
        elif pref == "future":
            exp = b0 + timedelta(days=(w - b.weekday()) % 7 or 7)
        else:
            exp = b0 - timedelta(days=(b.weekday() - w) % 7)
        if r != exp:
            why = "wrong"
    elif kind == "time" and c["zone"] == "UTC":
        cand = b.replace(hour=c["h"], minute=c["mi"], second=0, microsecond=0)
        if pref == "past" and cand > b:
            cand -= timedelta(days=1)
        if pref == "future" and cand < b:
            cand += timedelta(days=1)
        exp = cand
        if r != exp:
            why = "wrong"
    elif kind == "time":
        import pytz
        from dateparser.utils import get_timezone_from_tz_string

        if (r.hour, r.minute, r.second) != (c["h"], c["mi"], 0):
            why = "time-of-day-changed"
        else:
            tz = get_timezone_from_tz_string(c["zone"])
            readings = []
            if hasattr(tz, "_utc_transition_times"):
                try:
                    readings = [tz.localize(r, is_dst=None)]
                except Exception:
                    # wall time inside a DST gap or fold: the statement does not choose, either reading is accepted
                    ctx.count("time_zone:gap-or-fold(both readings accepted)")
                    readings = [tz.localize(r, is_dst=True), tz.localize(r, is_dst=False)]
            else:
                readings = [tz.localize(r) if hasattr(tz, "localize") else r.replace(tzinfo=tz)]
            r_utcs = [x.astimezone(pytz.utc).replace(tzinfo=None) for x in readings]
            day = timedelta(days=1)
            # slack = the largest clock change of the zone within two days of the reference (1 h usually, 2 h for double
            # summer time, 30 min for Lord Howe), at least 1 h: across such a change "a day earlier/later" is not 24 h
            slack = timedelta(hours=1)
            for t_utc, before, after in dst_edges(c["zone"], b.year - 1, b.year + 1) if hasattr(tz, "_utc_transition_times") else []:
                if abs(t_utc - b) < timedelta(days=2, hours=15):
                    slack = max(slack, abs(after - before))

            def holds(rr, bb):
                if pref == "past":
                    return rr <= bb and bb - rr < day + slack
                if pref == "future":
                    return rr >= bb and rr - bb < day + slack
                return abs(rr - bb) < day + slack

            if not (any(holds(x, b) for x in r_utcs) or holds(r, b)):
                why = "direction"
                exp = "a moment %s the reference within a day, under either reading of the naive reference" % pref
    else:
        m, d = c.get("m"), c.get("d")
        if r.month != m:
            why = "month-changed"
        elif kind in ("dm", "dmt", "yy") and r.day != d:
            why = "day-changed"
        elif kind == "dmt" and (r.hour, r.minute) != (c["h"], c["mi"]):
            why = "time-of-day-changed"
        elif kind == "yy" and r.year % 100 != c["yy"]:
            why = "year-digits-changed"
        elif pref == "past" and r > b:
            why = "direction"
        elif pref == "future" and r < b:
            why = "direction"
        elif pref == "current_period" and kind != "yy" and r.year != b.year and not (
                (m, d) == (2, 29) and not calendar.isleap(b.year)):
            why = "period"
        exp = "named parts kept; %s the reference" % pref
    if why:
        label = "occurrence:" + why
        if exp is not None and isinstance(exp, datetime) and isinstance(r, datetime) and kind in ("wd", "time"):
            feats["crosses_month"] = exp.month != b.month
            if r == month_reset(exp, b, c["pmoy"]) and r != exp:
                label = "occurrence:month-reset"
        elif kind == "time" and isinstance(r, datetime) and why == "direction":
            # non-UTC zone: the exact expectation is one of the neighbouring days under either reading
            for dd in (-2, -1, 0, 1, 2):
                cand = (b + timedelta(days=dd)).replace(hour=c["h"], minute=c["mi"], second=0, microsecond=0)
                if cand.month != b.month and r == month_reset(cand, b, c["pmoy"]) and r != cand:
                    label = "occurrence:month-reset"
                    feats["crosses_month"] = True
        ctx.violation(c, r, exp, label, feats)
        return
    if path != "absolute-time":
        ctx.count("off_path:%s" % path)
        return
    ctx.count("on_path:absolute-time")
    ctx.count("kind:%s:%s" % (kind, pref))
    if kind == "month":
        ctx.count("month:day-preference:%s" % c.get("pdom", "current"))
    ctx.nontrivial(s, c["base"], pref, c["zone"], c["pmoy"], c.get("pdom"))
    ctx.sample({"string": s, "base": c["base"], "PREFER_DATES_FROM": pref, "TIMEZONE": c["zone"], "result": iso(r)}, limit=3)


AWARE_ZONES = ["UTC", "+0530", "-0800", "+0900", "-0330", "EST", "America/New_York", "Europe/Paris", "Asia/Kolkata"]


def check_aware(ctx, c):
    """Time-only string, timezone-AWARE reference (no ambiguity about the reference instant), TIMEZONE given: the result,
    read as a wall time of TIMEZONE, is the nearest occurrence on the preferred side of the reference instant."""
    import pytz
    from dateparser.date import DateDataParser
    from dateparser.utils import get_timezone_from_tz_string

    b = parse_iso(c["base"])
    pref, h, mi, zone = c["pref"], c["h"], c["mi"], c["zone"]
    st = {"RELATIVE_BASE": b, "PREFER_DATES_FROM": pref, "TIMEZONE": zone}
    try:
        r = DateDataParser(languages=["en"], settings=st).get_date_data(c["s"])["date_obj"]
    except Exception as e:
        r = e
    ctx.ran()
    tz = get_timezone_from_tz_string(zone)

    def inst(naive):
        if hasattr(tz, "_utc_transition_times"):
            return tz.localize(naive, is_dst=None).astimezone(pytz.utc)
        return (tz.localize(naive) if hasattr(tz, "localize") else naive.replace(tzinfo=tz)).astimezone(pytz.utc)

    b_utc = b.astimezone(pytz.utc)
    b_in_z = b.astimezone(tz).replace(tzinfo=None)
    feats = {"kind": "time-aware-base", "pref": pref, "zone_utc": zone == "UTC",
             "own_date_differs": b.replace(tzinfo=None).date() != b_in_z.date()}
    try:
        cands = [(b_in_z + timedelta(days=dd)).replace(hour=h, minute=mi, second=0, microsecond=0) for dd in (-1, 0, 1)]
        insts = [(x, inst(x)) for x in cands]
    except Exception:
        ctx.count("aware:gap-or-fold-skipped")
        return
    if pref == "past":
        ok = [x for x, i in insts if i <= b_utc]
        exp = max(ok) if ok else None
    elif pref == "future":
        ok = [x for x, i in insts if i >= b_utc]
        exp = min(ok) if ok else None
    else:
        exp = None
    if not isinstance(r, datetime):
        ctx.violation(c, r, exp, "occurrence:no-result", feats)
        return
    if (r.hour, r.minute, r.second) != (h, mi, 0):
        ctx.violation(c, r, exp, "occurrence:time-of-day-changed", feats)
        return
    if exp is not None and r.replace(tzinfo=None) != exp:
        label = "occurrence:wrong"
        if abs(r.replace(tzinfo=None) - exp) == timedelta(days=1) and feats["own_date_differs"]:
            # the day was taken from the date the reference shows in its own offset, not from its date in TIMEZONE
            label = "occurrence:aware-reference-date-not-taken-in-TIMEZONE"
        ctx.violation(c, r, exp, label, feats)
        return
    if exp is None and abs(r.replace(tzinfo=None) - b_in_z) > timedelta(days=1, hours=2):
        label = "occurrence:period"
        if feats["own_date_differs"] and abs(r.replace(tzinfo=None) - b_in_z) < timedelta(days=2, hours=2):
            label = "occurrence:aware-reference-date-not-taken-in-TIMEZONE"
        ctx.violation(c, r, "within a day of the reference", label, feats)
        return
    ctx.count("aware_base:%s" % pref)
    ctx.nontrivial(c["s"], c["base"], pref, zone, "aware")


OWN_ZONES = [("+05:30", 19800), ("-08:00", -28800), ("+09:00", 32400), ("-03:30", -12600), ("+00:00", 0), ("EST", -18000),
             ("PST", -28800), ("JST", 32400), ("CET", 3600), ("+13:00", 46800)]


def check_ownzone(ctx, c):
    """Time-only string that names its own zone ('07:30 EST'), naive reference, TIMEZONE='UTC': the zone in the string says
    which instants the clock time denotes; the result is the nearest of them on the preferred side of the reference."""
    from dateparser.date import DateDataParser

    ctx.remember(check_ownzone, c)
    b = parse_iso(c["base"])
    pref, h, mi, off = c["pref"], c["h"], c["mi"], timedelta(seconds=c["off"])
    st = {"RELATIVE_BASE": b, "PREFER_DATES_FROM": pref, "TIMEZONE": "UTC"}
    try:
        r = DateDataParser(languages=["en"], settings=st).get_date_data(c["s"])["date_obj"]
    except Exception as e:
        r = e
    ctx.ran()
    b_in_z = b + off
    feats = {"kind": "time-own-zone", "pref": pref, "ref_date_differs_between_zones": b_in_z.date() != b.date()}
    # candidate instants (as naive UTC): h:mi on the days around the reference's date in the string's zone
    insts = [(b_in_z + timedelta(days=dd)).replace(hour=h, minute=mi, second=0, microsecond=0) - off for dd in (-2, -1, 0, 1, 2)]
    if not isinstance(r, datetime) or r.tzinfo is None:
        ctx.violation(c, r, "an aware datetime", "occurrence:no-result", feats)
        return
    r_utc = (r - r.utcoffset()).replace(tzinfo=None)
    side = [x for x in insts if (x <= b if pref == "past" else x >= b)] if pref != "current_period" else []
    nearest = [max(side)] if pref == "past" and side else [min(side)] if side else insts[1:4]
    # (where the reference's date differs between the zones the day itself may be a neighbouring one: the other known defect)
    for want in (insts if feats["ref_date_differs_between_zones"] else nearest):
        # the known month reset (C09-month-reset), which acts on the wall time in the string's zone
        if (want + off).month != b.month and r_utc + off == month_reset(want + off, b, "current") and r_utc != want:
            feats["crosses_month"] = True
            ctx.violation(c, r, want, "occurrence:month-reset", feats)
            return
    if r_utc not in insts:
        ctx.violation(c, r, "%02d:%02d in the string's zone" % (h, mi), "occurrence:time-of-day-changed", feats)
        return
    if pref == "past":
        ok = r_utc == max(x for x in insts if x <= b) or r_utc == b
    elif pref == "future":
        ok = r_utc == min(x for x in insts if x >= b) or r_utc == b
    else:
        # the reference day: its date in the string's zone or in TIMEZONE (the statement does not say)
        ok = (r_utc + off).date() in (b_in_z.date(), b.date())
    if not ok:
        ctx.violation(c, r, "the nearest %02d:%02d (string's zone) %s the reference" % (h, mi, pref),
                      "occurrence:own-zone-wrong-day", feats)
        return
    ctx.count("own_zone:%s" % pref)
    ctx.count("own_zone:ref_date_differs:%s" % feats["ref_date_differs_between_zones"])
    ctx.nontrivial(c["s"], c["base"], pref, "own-zone")


def gen_ownzone(rnd):
    b = gen_base(rnd).replace(hour=rnd.randrange(24), minute=rnd.randrange(60))
    z, off = rnd.choice(OWN_ZONES)
    h, mi = rnd.randrange(24), rnd.randrange(60)
    if rnd.random() < 0.3:
        # a clock time within the offset's width of the reference: where a comparison made in the wrong zone shows
        t = b + timedelta(seconds=off) + timedelta(minutes=rnd.randrange(-14 * 60, 14 * 60))
        h, mi = t.hour, t.minute
    return {"base": iso(b), "pref": rnd.choice(PREFS), "kind": "time-own-zone", "zone": "UTC", "pmoy": "current", "h": h, "mi": mi,
            "off": off, "s": "%02d:%02d %s" % (h, mi, z)}


def gen_aware(rnd):
    off = rnd.choice([0, 0, 5, -7, 9.5, -3, 13])
    b = datetime(rnd.randrange(1975, 2037), rnd.randrange(1, 13), rnd.randrange(8, 22), rnd.randrange(24), rnd.randrange(60),
                 tzinfo=timezone(timedelta(hours=off)))
    h, mi = rnd.randrange(24), rnd.randrange(60)
    if rnd.random() < 0.15:
        h, mi = b.hour, b.minute
    return {"base": iso(b), "pref": rnd.choice(PREFS), "kind": "time-aware", "zone": rnd.choice(AWARE_ZONES), "pmoy": "current",
            "h": h, "mi": mi, "s": "%02d:%02d" % (h, mi)}


def run_shard(ctx, desc):
    import dateparser  # noqa

    PathTap.install()
    ac = AnchorCounter(ANCHORS).start()
    try:
        if desc["part"] == "random":
            rnd = rng(ctx.seed, "C09", desc["i"])
            for _ in range(desc["n"]):
                check_case(ctx, gen_case(rnd))
        elif desc["part"] == "ownzone":
            rnd = rng(ctx.seed, "C09own", desc["i"])
            for _ in range(desc["n"]):
                check_ownzone(ctx, gen_ownzone(rnd))
        elif desc["part"] == "aware":
            rnd = rng(ctx.seed, "C09aware", desc["i"])
            for _ in range(desc["n"]):
                check_aware(ctx, gen_aware(rnd))
        elif desc["part"] == "dst":
            # time-only strings naming a wall time inside (or at the edge of) a DST gap/fold of the TIMEZONE setting,
            # reference on/around the transition day
            rnd = rng(ctx.seed, "C09dst", desc["i"])
            for _ in range(desc["n"]):
                w = dst_wall_case(rnd)
                c = {"base": iso(w["base"]), "pref": rnd.choice(PREFS), "kind": "time", "zone": w["zone"], "pmoy": "current",
                     "h": w["wall"].hour, "mi": w["wall"].minute, "s": "%02d:%02d" % (w["wall"].hour, w["wall"].minute)}
                ctx.count("dst:%s" % w["kind"])
                check_case(ctx, c)
        else:
            d = datetime(desc["y0"], 1, 1, 12, 30)
            n = 0
            while d.year < desc["y1"]:
                for w in range(7):
                    for pref in PREFS:
                        check_case(ctx, {"base": iso(d), "pref": pref, "kind": "wd", "zone": "UTC", "pmoy": "current",
                                         "w": w, "s": WN[w]})
                d += timedelta(days=1)
                n += 1
            ctx.count("everyday_days", n)
        ctx.reask()
    finally:
        ac.stop()
    for k, v in ac.counts.items():
        ctx.count("anchor:" + k, v)


def finalize(merged, tier, seed):
    c = merged["counters"]
    inc = []
    if c.get("on_path:absolute-time", 0) < 5000:
        inc.append("absolute-time path reached only %d times" % c.get("on_path:absolute-time", 0))
    for kind in ("wd", "month", "dm", "dmt", "time", "yy"):
        if sum(v for k, v in c.items() if k.startswith("kind:%s:" % kind)) < 100:
            inc.append("string kind %s decided fewer than 100 cases" % kind)
    return {"inconclusive": inc, "anchors_hit": {k[7:]: v for k, v in c.items() if k.startswith("anchor:")}}


def replay_case(ctx, v):
    PathTap.install()
    if v["case"].get("kind") == "time-aware":
        check_aware(ctx, v["case"])
        return
    if v["case"].get("kind") == "time-own-zone":
        check_ownzone(ctx, v["case"])
        return
    check_case(ctx, v["case"])
