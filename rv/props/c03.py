"""C03 — results depend only on the call's arguments, never on call history."""
import json
import time

from .. import calls as C
from ..gen.common import rng
from ..hooks import AnchorCounter, wrap
from ..monitors import ConservationMonitor, registry

LEVEL = "exploration"
RULE = ("a pool of distinct API calls ({parse, DateDataParser().get_date_data, long-lived DateDataParser instance, search_dates, "
        "Jalali/Hijri} x strings in 15+ languages x ~29 settings variants incl. every DATE_ORDER, NORMALIZE, SKIP_TOKENS, "
        "DEFAULT_LANGUAGES, PARSERS, STRICT, zone pairs, CACHE_SIZE_LIMIT {0,1,2,3,-1}, invalid settings, unknown languages, and a "
        "sub-pool without RELATIVE_BASE); reference = the call executed alone in a pristine process (fork of a just-imported "
        "interpreter) under PYTHONHASHSEED 0, 1 and 4242 (must agree); histories of length 5-60 drawn uniformly / from few keys / "
        "as adversarial sandwiches c,x,c (x differing from c in one dimension or failing), concatenated per worker, with "
        "long-lived instances created at first use; every step's outcome must equal the reference. Monitors: settings-registry "
        "conservation at every quiescent point (drift triggers targeted probing of long-lived instances), caller-argument "
        "immutability, tripwires on _try_parser (DATE_ORDER left rewritten triggers the order-less victims at once) and _add_to_cache. "
        "non-trivial distinct = distinct (previous call, call) pairs executed, i.e. distinct one-step histories.")
ASSUMPTIONS = ["the reference is produced by the same code in a pristine process: the check asserts history-freedom, not values",
               "try_previous_locales and detect_languages_function are excluded as the statement says",
               "outcomes of calls without RELATIVE_BASE are compared relative to the harness clock (120 s tolerance, re-referenced once)"]
TIMEOUT = {"quick": 900, "thorough": 5400}
ANCHORS = [("dateparser.conf", "Settings.__init__"), ("dateparser.conf", "Settings.replace"),
           ("dateparser.languages.dictionary", "Dictionary._add_to_cache"),
           ("dateparser.languages.locale", "Locale._get_dictionary"),
           ("dateparser.search.search", "_ExactLanguageSearch.parse_item"),
           ("dateparser.date", "_DateLocaleParser._try_parser")]
STEPS = {"quick": 42000, "thorough": 1400000}
SHARD_STEPS = {"quick": 3000, "thorough": 25000}


def shards(tier, seed):
    pool = C.build_pool(tier)
    refs, dis = C.compute_references(pool)
    n = STEPS[tier] // SHARD_STEPS[tier]
    refs_l = [refs[c["id"]] for c in pool]
    out = [{"i": i, "steps": SHARD_STEPS[tier], "refs": refs_l,
            "hash_disagreements": [[c, {str(k): v for k, v in o.items()}] for c, o in dis] if i == 0 else []}
           for i in range(n)]
    return out


# ------------------------------------------------------------------ monitors
class Post:
    def __init__(self, ctx):
        self.ctx = ctx
        self.current = None   # call in flight
        self.tripped = None   # set by the DATE_ORDER tripwire

    def install(self):
        ctx = self.ctx
        post = self

        def tp_before(args, kwargs):
            return args[0]._settings.DATE_ORDER

        def tp_after(token, args, kwargs, result, exc):
            now = args[0]._settings.DATE_ORDER
            if now != token:
                # a trigger, not a verdict: the order-less victims of the pool are asked right after this call returns
                ctx.count("tripwire:DATE_ORDER-left-rewritten")
                post.tripped = (args[0].locale.shortname, now, token)

        wrap("dateparser.date", "_DateLocaleParser._try_parser", tp_before, tp_after, name="post:_try_parser")

        def ac_after(token, args, kwargs, result, exc):
            if exc is not None:
                return
            self_ = args[0]
            value = kwargs.get("value", args[1] if len(args) > 1 else None)
            cache = kwargs.get("cache", args[2] if len(args) > 2 else None)
            key, name = self_._settings.registry_key, self_.info["name"]
            ok = cache is not None and key in cache and name in cache[key] and cache[key][name] is value
            if not ok:
                # observable by the very next statement of the library (KeyError escapes the call): counted only
                ctx.count("tripwire:cache-lost-own-entry")

        wrap("dateparser.languages.dictionary", "Dictionary._add_to_cache", None, ac_after, name="post:_add_to_cache")


def dimension(a, b):
    """Which argument dimension distinguishes two calls."""
    if a is None:
        return "none"
    dims = []
    if a["api"] != b["api"]:
        dims.append("api")
    if a["lang"] != b["lang"]:
        dims.append("language")
    if a["s"] != b["s"]:
        dims.append("string")
    sa, sb = C.settings_of(a) or {}, C.settings_of(b) or {}
    for k in sorted(set(sa) | set(sb)):
        if sa.get(k) != sb.get(k):
            dims.append(k)
    return "+".join(dims) or "same-call"


class Runner:
    def __init__(self, ctx, pool, refs):
        self.ctx, self.pool, self.refs = ctx, pool, refs
        self.insts = {}
        self.history = []
        self.cons = ConservationMonitor()
        self.post = Post(ctx)
        self.post.install()
        self.srv = None
        self.prev = None
        self.mutations = []

    def server(self):
        if self.srv is None:
            self.srv = C.ForkServer(0)
        return self.srv

    def step(self, call):
        ctx = self.ctx
        self.post.current = call
        out = C.execute(call, self.insts, self.mutations)
        self.post.current = None
        if self.post.tripped:
            trip, self.post.tripped = self.post.tripped, None
            self.probe_after_trip(call, trip)
        self.history.append(call)
        ctx.ran()
        ctx.nontrivial(self.prev and (self.prev["id"], self.prev["api"]), call["id"], call["api"])
        ctx.count("api:%s" % call["api"])
        ref = self.refs[C.ref_call(call)["id"]]
        if not C.same_outcome(out, ref):
            self.diverged(call, out, ref)
        else:
            ctx.count("agrees_with_fresh_process")
        while self.mutations:
            m = self.mutations.pop()
            ctx.violation({"call": m["call"]}, {"settings": m["settings_after"], "languages": m["languages_after"]},
                          {"settings": m["settings_before"], "languages": m["languages_before"]},
                          "caller-arguments-mutated", {"api": call["api"]})
        drift = self.cons.check(note=call["id"])
        for key, attr, was, now, note in drift:
            ctx.count("drift:%s" % attr)
            self.probe_after_drift(key, call)
        self.prev = call

    def probe_after_trip(self, cause, trip):
        """DATE_ORDER was left rewritten by `cause` on the settings object registered for cause's settings: ask the
        order-less locale through the long-lived parser that shares that object (created before any history ran), then
        through a fresh one, where a leaked order changes the value."""
        if cause["api"] not in ("parse", "ddp", "inst") or "st" in cause:
            return
        for s in ("01/02/2015", "2015/01/02 10:45"):
            v = {"api": "ddp", "s": s, "lang": "tl", "si": cause["si"], "nobase": cause["nobase"], "grp": "victim"}
            key = (s, cause["si"], cause["nobase"])
            if key not in self._vref:
                self._vref[key] = self.server().run([v])[0]
            ref = self._vref[key]
            for c in (dict(v, api="inst"), v):
                out = C.execute(c, self.insts)
                self.ctx.ran()
                self.ctx.count("tripwire_probes")
                if not C.same_outcome(out, ref):
                    c = dict(c, id=-1)
                    self.history.append(c)
                    self.ctx.violation({"call": c, "culprit": cause, "history_tail": [h["id"] for h in self.history[-6:]],
                                        "note": "DATE_ORDER was left at %r (was %r) in locale %s by the culprit call" % (
                                            trip[1], trip[2], trip[0])}, out, ref, "history-dependence",
                                       {"api": c["api"], "culprit_api": cause["api"], "dimension": "language+string",
                                        "reproduced_in_pristine_replay": None, "outcome_kind": "value", "exc": None})
                    return

    def precreate_victims(self):
        """Long-lived order-less parsers, one per settings variant of the pool, exist before any history runs."""
        self._vref = {}
        for nobase, table in ((False, C.SETTINGS), (True, C.NOBASE_SETTINGS)):
            for si in range(len(table)):
                C.execute({"api": "inst", "s": "01/02/2015", "lang": "tl", "si": si, "nobase": nobase}, self.insts)

    def probe_after_drift(self, key, cause):
        """A registered Settings instance changed: make the change observable if it can be, by calling
        the long-lived instances that share that settings object."""
        for ikey, p in list(self.insts.items()):
            if getattr(p._settings, "registry_key", None) != key:
                continue
            for c in self.pool:
                if c["api"] == "ddp" and C.inst_key(c) == ikey:
                    probe = dict(c, api="inst")
                    out = C.execute(probe, self.insts)
                    self.history.append(probe)
                    self.ctx.ran()
                    self.ctx.count("drift_probes")
                    ref = self.refs[c["id"]]
                    if not C.same_outcome(out, ref):
                        self.diverged(probe, out, ref, note="after settings drift caused by call %s" % cause["id"])
                        return

    def diverged(self, call, out, ref, note=None):
        ctx = self.ctx
        rc = C.ref_call(call)
        if call["nobase"]:
            # now-relative outcome: refresh the reference once (the clock may have crossed a boundary)
            ref2 = self.server().run([rc])[0]
            out2 = C.execute(call, self.insts)
            if C.same_outcome(out2, ref2):
                ctx.count("nobase_rereferenced_ok")
                return
            ref = ref2
        self.n_div = getattr(self, "n_div", 0) + 1
        culprit, repro = self.minimise(call, ref) if self.n_div <= 4 else (None, None)
        feats = {"api": call["api"], "culprit_api": culprit and culprit["api"],
                 "dimension": dimension(culprit, call) if culprit else "unminimised",
                 "reproduced_in_pristine_replay": repro,
                 "outcome_kind": out[0] if out[0] == "exc" else "value", "exc": out[1] if out[0] == "exc" else None}
        case = {"call": call, "culprit": culprit, "note": note, "history_tail": [h["id"] for h in self.history[-6:]]}
        if culprit is None:
            # no single earlier call reproduces it: the witness is the recent history itself ([pool id, api] pairs)
            case["history"] = [[h["id"], h["api"]] for h in self.history[-400:] if h.get("id", -1) >= 0]
        ctx.violation(case, out, ref, "history-dependence", feats)

    def minimise(self, call, ref):
        """Find one earlier call that alone makes `call` diverge in a pristine process."""
        try:
            srv = self.server()
            hist = self.history[:-1]
            # full replay first
            budget = 40
            full = srv.run(hist[-400:] + [call], timeout=300)[-1]
            repro = not C.same_outcome(full, ref)
            seen = set()
            for h in reversed(hist[-200:]):
                sig = (h["id"], h["api"])
                if sig in seen:
                    continue
                seen.add(sig)
                budget -= 1
                if budget < 0:
                    break
                pair = [h, call]
                if call["api"] == "inst":
                    # the instance must exist before the culprit ran
                    pair = [call, h, call]
                res = srv.run(pair, timeout=120)[-1]
                if not C.same_outcome(res, ref):
                    return h, True
            return None, repro
        except Exception as e:
            self.ctx.notes.append("minimisation failed: %r" % e)
            return None, None

    def close(self):
        if self.srv is not None:
            self.srv.close()


# ------------------------------------------------------------------ histories
def one_dimension_neighbours(pool):
    by = {}
    for c in pool:
        by.setdefault((c["api"], c["s"], c["lang"], c["nobase"]), []).append(c)   # differ in settings only
    by_lang = {}
    for c in pool:
        by_lang.setdefault((c["api"], c["s"], c["si"], c["nobase"]), []).append(c)  # differ in language only
    return by, by_lang


def gen_history(rnd, pool, idx):
    by_set, by_lang, by_api, failing = idx
    n = rnd.randrange(5, 61)
    k = rnd.random()
    out = []
    if k < 0.12:
        # one thematic group (date-order disturbers+victims, or overlapping zone spellings), calls in random order
        grp = rnd.choice(["order", "tz", "plain", "relloc", "cal", "searchsel"])
        sub = [c for c in pool if c.get("grp") == grp]
        out = [rnd.choice(sub) for _ in range(n)]
    elif k < 0.3:
        out = [rnd.choice(pool) for _ in range(n)]
    elif k < 0.65:
        # few keys: 2-3 languages x 3-4 settings, repeated (aims at the caches and the registry)
        langs = rnd.sample(["en", "fr", "de", "ru", "es", None], rnd.randrange(2, 4))
        sis = rnd.sample(range(len(C.SETTINGS)), rnd.randrange(3, 5))
        sub = [c for c in pool if c["lang"] in langs and (c["si"] in sis or c["nobase"])]
        if not sub:
            sub = pool
        out = [rnd.choice(sub) for _ in range(n)]
    else:
        # adversarial sandwiches c, x, c
        while len(out) < n:
            c = rnd.choice(pool)
            kk = rnd.random()
            if kk < 0.45:
                xs = by_set[(c["api"], c["s"], c["lang"], c["nobase"])]
            elif kk < 0.6:
                xs = by_lang[(c["api"], c["s"], c["si"], c["nobase"])]
            elif kk < 0.75:
                xs = failing
            elif kk < 0.9:
                xs = by_api["search"]
            else:
                xs = pool
            out += [c, rnd.choice(xs), c]
    # a third of the DateDataParser steps go through long-lived instances
    res = []
    for c in out:
        if c["api"] == "ddp" and rnd.random() < 0.6:
            c = dict(c, api="inst")
        res.append(c)
    return res


def run_shard(ctx, desc):
    import dateparser  # noqa
    import dateparser.search  # noqa
    from dateparser.calendars.hijri import HijriCalendar  # noqa
    from dateparser.calendars.jalali import JalaliCalendar  # noqa

    pool = C.build_pool(ctx.tier)
    refs = desc["refs"]
    for c, outs in desc.get("hash_disagreements", []):
        ctx.violation({"call": c}, outs, "identical outcome under every PYTHONHASHSEED", "hash-seed-dependence", {"api": c["api"]})
    ac = AnchorCounter(ANCHORS).start()
    r = Runner(ctx, pool, refs)
    rnd = rng(ctx.seed, "C03", desc["i"])
    by_set, by_lang = one_dimension_neighbours(pool)
    by_api = {}
    for c in pool:
        by_api.setdefault(c["api"], []).append(c)
    failing = [c for c in pool if refs[c["id"]][0] == "exc"]
    idx = (by_set, by_lang, by_api, failing)
    try:
        r.precreate_victims()
        # fixed stratum (seed-independent): the sandwiches the design probes found
        if desc["i"] == 0:
            for c in fixed_history(pool):
                r.step(c)
        t0 = time.time()
        while ctx.evaluations < desc["steps"]:
            h = gen_history(rnd, pool, idx)
            ctx.count("histories")
            for c in h:
                r.step(c)
            if len(ctx.samples) < 2:
                ctx.sample({"history": [{"api": c["api"], "s": c["s"], "lang": c["lang"],
                                         "settings": {k: str(v) for k, v in (C.settings_of(c) or {}).items()}} for c in h[:6]],
                            "length": len(h)})
    finally:
        r.close()
        ac.stop()
    for k, v in ac.counts.items():
        ctx.count("anchor:" + k, v)
    ctx.count("conservation_checks", r.cons.checks)
    ctx.count("registry_size_at_end", len(registry()))
    ctx.count("long_lived_instances", len(r.insts))


def fixed_history(pool):
    def find(api, s, lang, si, nobase=False):
        for c in pool:
            if (c["api"], c["s"], c["lang"], c["si"], c["nobase"]) == (api, s, lang, si, nobase):
                return c
        return None

    seq = []
    # long-lived instance, then a search with equal settings, then the instance again (RELATIVE_BASE leak)
    a = find("ddp", "yesterday", "en", 1, True)
    s = find("search", "It was on 12 May 2015 and then yesterday again", "en", 1, True)
    if a and s:
        seq += [dict(a, api="inst"), s, dict(a, api="inst")]
    # cache limit 1 sandwiches (eviction of the entry just written)
    a = find("parse", "12 May 2015", "en", 9)
    b = find("parse", "02/03/2015", "fr", 0)
    c = find("parse", "vor 2 Tagen", "de", 9)
    if a and b and c:
        seq += [a, b, c, a, b]
    return seq


def finalize(merged, tier, seed):
    c = merged["counters"]
    inc = []
    if c.get("agrees_with_fresh_process", 0) < 5000 and not any(k.startswith("violation:") for k in c):
        inc.append("too few steps compared with the fresh-process reference")
    for api in ("parse", "ddp", "inst", "search"):
        if c.get("api:%s" % api, 0) < 200:
            inc.append("api %s exercised fewer than 200 times" % api)
    if c.get("conservation_checks", 0) < 1000:
        inc.append("conservation monitor ran fewer than 1000 times")
    return {"inconclusive": inc, "anchors_hit": {k[7:]: v for k, v in c.items() if k.startswith("anchor:")},
            "drift_events": {k[6:]: v for k, v in c.items() if k.startswith("drift:")}}


def replay_case(ctx, v):
    import dateparser  # noqa
    import dateparser.search  # noqa

    case = v["case"]
    call, culprit = case["call"], case.get("culprit")
    if v["label"] == "caller-arguments-mutated":
        guard = []
        C.execute(call, {}, guard)
        for m in guard:
            ctx.violation({"call": m["call"]}, {"settings": m["settings_after"], "languages": m["languages_after"]},
                          {"settings": m["settings_before"], "languages": m["languages_before"]},
                          "caller-arguments-mutated", v.get("features"))
        return
    srv = C.ForkServer(0)
    try:
        rc = C.ref_call(call)
        ref = srv.run([rc])[0]
        seqs = []
        if culprit:
            seqs.append([call, culprit, call] if call["api"] == "inst" else [culprit, call])
        # the recorded tail of the history (ids of the tier's deterministic pool), ending with the call itself
        pool = {c["id"]: c for c in C.build_pool(v.get("tier", "quick"))}
        tail = [pool[i] for i in case.get("history_tail", [])[:-1] if i in pool]
        if tail:
            seqs.append(([call] if call["api"] == "inst" else []) + tail + [call])
        if case.get("history"):
            hist = [dict(pool[i], api=a) for i, a in case["history"][:-1] if i in pool]
            seqs.append(hist + [call])
        seqs.append([call])
        for seq in seqs:
            out = srv.run(seq)[-1]
            if not C.same_outcome(out, ref):
                ctx.violation(case, out, ref, v["label"], v.get("features"))
                return
    finally:
        srv.close()
