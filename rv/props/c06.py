"""C06 — every locale's relative phrases mean what their English canon means (vocabulary walk)."""
import collections
from datetime import datetime

from ..hooks import AnchorCounter
from ..monitors import PathTap, TranslateTap
from ..oracles import vocab

LEVEL = "exploration"
RULE = ("complete walk of 'relative-type' (fixed phrases) and 'relative-type-regex' (counted patterns) of all 205 languages and "
        "of the additions of the 299 regional locales, read as data. Patterns become phrases by substituting the number group "
        "with counts {2, 11, 45} (thorough {0,1,2,3,11,45,120}) and, for canon units second..week, decimals '1.5' and '2,5'; "
        "'\\s*' and 'x?' are expanded both ways and every phrase must full-match its own pattern (else counted unsampled). Oracle: "
        "get_date_data(canon, languages=['en']) under the same RELATIVE_BASE (quick 1 base, thorough 4). Phrases listed under two "
        "canonical keys or also as another word are skipped and counted. non-trivial distinct = distinct (locale, canon, listed "
        "phrase/pattern, number form) whose both sides went through the relative-time parser.")
EXHAUSTIVE = {"quick": True, "thorough": True}
ASSUMPTIONS = ["default settings (NORMALIZE on)", "the English parse of the canonical key is the reference (the property's own definition)"]
TIMEOUT = {"quick": 600, "thorough": 3600}
ANCHORS = [("dateparser.languages.locale", "Locale._get_relative_translations"),
           ("dateparser.languages.dictionary", "Dictionary.split"),
           ("dateparser.languages.dictionary", "Dictionary._get_match_relative_regex_cache"),
           ("dateparser.languages.locale", "Locale._clear_future_words")]
GROUP = r"(\d+[.,]?\d*)"
BASES = [datetime(2021, 3, 31, 10, 30, 15), datetime(2020, 2, 29), datetime(2019, 12, 31, 23, 59), datetime(2021, 1, 1)]
SUBDAY_OR_WEEK = ("second", "minute", "hour", "day", "week")


def shards(tier, seed):
    return [{"i": i, "k": 15} for i in range(15)]


def entries():
    """(lang, loc, kind, canon, listed) for the whole relative vocabulary."""
    out = []
    for lang, loc in vocab.all_locales():
        info = vocab.locale_info(loc, lang)
        parent = vocab.locale_info(lang, lang) if loc != lang else {}
        for kind, key in (("fixed", "relative-type"), ("pattern", "relative-type-regex")):
            for canon, words in (info.get(key) or {}).items():
                inherited = set((parent.get(key) or {}).get(canon, [])) if loc != lang else set()
                seen = set()
                own = [w for w in words if w not in inherited]
                for w in words:
                    if w in seen:
                        continue
                    seen.add(w)
                    if w in inherited:
                        # a regional locale also understands what it inherits: walked for every key the locale extends
                        # itself (where the overlay has to merge two lists), and for one phrase of every other key
                        if own or w == words[0]:
                            out.append((lang, loc, kind, canon, w, True))
                        continue
                    out.append((lang, loc, kind, canon, w, False))
    return out


def expand(pattern):
    """Literal renderings of the non-number part of a listed pattern ('\\s*' and 'x?' both ways)."""
    outs = [""]
    i = 0
    p = pattern
    while i < len(p):
        if p.startswith(GROUP, i):
            outs = [o + "\0" for o in outs]
            i += len(GROUP)
            continue
        if p.startswith(r"\s*", i):
            outs = [o + v for o in outs for v in ("", " ")]
            i += 3
            continue
        ch = p[i]
        if ch == "\\" and i + 1 < len(p):
            ch = p[i + 1]
            i += 1
            if ch not in ".-'()[]{}+*?|^$\\/":
                return None
        elif ch in "()[]{}+*|^$":
            return None
        if i + 1 < len(p) and p[i + 1] == "?":
            outs = [o + v for o in outs for v in (ch, "")]
            i += 2
            continue
        if ch == "?":
            return None
        outs = [o + ch for o in outs]
        i += 1
    return outs


def single_meaning(info, kind, canon, w):
    if kind == "fixed":
        mm = vocab.meaning_map(info, True)
        return mm.get(vocab.lookup_form(w, True)) == {"rel:" + canon}
    n = 0
    for c, words in (info.get("relative-type-regex") or {}).items():
        if w in words:
            n += 1
    return n == 1


_P = {}


def parser_for(loc, lang, base):
    from dateparser.date import DateDataParser

    key = (loc, base)
    if key not in _P:
        kw = {"languages": [lang]} if loc == lang else {"locales": [loc]}
        _P[key] = DateDataParser(settings={"RELATIVE_BASE": base}, **kw)
    return _P[key]


_EN = {}


def english(canon, base):
    key = (canon, base)
    if key not in _EN:
        PathTap.reset()
        dd = parser_for("en", "en", base).get_date_data(canon)
        _EN[key] = (dd["date_obj"], dd["period"], PathTap.accepted("relative-time"))
    return _EN[key]


def classify(canon_text):
    if not TranslateTap.available:
        return "unclassified(tap-unavailable)"   # Locale.translate was renamed/moved: the mechanism cannot be told
    evs = [e for e in TranslateTap.events() if not e[2]]
    if not evs:
        return "not-applicable-to-locale"
    tr = " ".join(evs[-1][3].split())
    return "misparsed" if tr == " ".join(canon_text.split()) else "mistranslated"


def check_entry(ctx, e, counts, decimals, bases):
    import regex as re

    lang, loc, kind, canon, w = e[:5]
    inherited = len(e) > 5 and e[5]
    info = vocab.locale_info(loc, lang)
    if not single_meaning(info, kind, canon, w):
        ctx.count("ambiguous_skipped")
        return
    if kind == "fixed":
        variants = [("fixed", w, canon)]
    else:
        if GROUP not in w:
            ctx.count("pattern_without_number_group")
            return
        forms = expand(w)
        if not forms:
            ctx.count("unsampled_pattern")
            return
        variants = []
        unit = canon.replace("\\1", "").replace("ago", "").replace("in", "").strip()
        for n in counts:
            for f in forms:
                variants.append(("integer", f.replace("\0", n), canon.replace("\\1", n)))
        if unit in SUBDAY_OR_WEEK:
            for n in decimals:
                nf = "decimal-comma" if "," in n else "decimal-point"
                for f in forms:
                    variants.append((nf, f.replace("\0", n), canon.replace("\\1", n.replace(",", "."))))
        pat = re.compile(r"^(?:%s)$" % w, re.I | re.U)
        ok_variants = []
        for nf, phrase, c in variants:
            if pat.match(phrase):
                ok_variants.append((nf, phrase, c))
            else:
                ctx.count("unsampled_variant")
        variants = ok_variants
    failed_forms = set()
    for nf, phrase, c in variants:
        if nf in failed_forms:
            continue
        for base in bases:
            exp, exp_period, en_path = english(c, base)
            PathTap.reset()
            TranslateTap.reset()
            try:
                dd = parser_for(loc, lang, base).get_date_data(phrase)
                got = dd["date_obj"]
            except Exception as ex:
                got = ex
            path = PathTap.accepted("relative-time")
            ctx.ran()
            # an inherited phrase that fails in the regional locale for the reason it fails in its language is that
            # language's entry (known findings are listed per language-level vocabulary entry)
            ent = "%s|%s|%s|%s" % (lang if inherited else loc, canon, w, nf)
            if got != exp:
                ctx.violation({"lang": lang, "locale": loc, "kind": kind, "canon": canon, "listed": w, "phrase": phrase, "inherited": inherited,
                               "number_form": nf, "base": base.isoformat()}, got, exp, "relative-phrase:" + classify(c),
                              {"entry": ent, "locale": loc, "number_form": nf, "kind": kind, "path": path})
                failed_forms.add(nf)
                break
            if path == "relative-time" and en_path == "relative-time":
                ctx.nontrivial(ent, loc)
                ctx.count("asserted:%s:%s" % (kind, nf))
            else:
                ctx.count("off_path:%s/%s" % (path, en_path))
    if len(ctx.samples) < 3 and loc not in ("en",) and variants:
        ctx.sample({"locale": loc, "canon": canon, "listed": w, "phrase": variants[0][1]})


def run_shard(ctx, desc):
    import dateparser  # noqa

    PathTap.install()
    TranslateTap.install()
    ac = AnchorCounter(ANCHORS).start()
    try:
        ents = entries()
        if desc["i"] == 0:
            ctx.count("vocabulary_entries_total", len(ents))
        mine = ents[desc["i"]::desc["k"]]
        if ctx.tier == "quick":
            counts, decimals, bases = ["2", "11", "45"], ["1.5", "2,5"], BASES[:1]
        else:
            counts, decimals, bases = ["0", "1", "2", "3", "11", "45", "120"], ["1.5", "2,5", "0.5"], BASES
        for e in mine:
            check_entry(ctx, e, counts, decimals, bases)
        ctx.count("entries_walked", len(mine))
    finally:
        ac.stop()
    for k, v in ac.counts.items():
        ctx.count("anchor:" + k, v)


def finalize(merged, tier, seed):
    c = merged["counters"]
    inc = []
    total = c.get("vocabulary_entries_total", 0)
    if c.get("entries_walked", 0) != total or total < 5000:
        inc.append("vocabulary walk incomplete: %d of %d" % (c.get("entries_walked", 0), total))
    if c.get("asserted:fixed:fixed", 0) < 2000 or c.get("asserted:pattern:integer", 0) < 5000:
        inc.append("too few entries asserted")
    return {"inconclusive": inc, "anchors_hit": {k[7:]: v for k, v in c.items() if k.startswith("anchor:")}}


def replay_case(ctx, v):
    PathTap.install()
    TranslateTap.install()
    c = v["case"]
    check_entry(ctx, (c["lang"], c["locale"], c["kind"], c["canon"], c["listed"], bool(c.get("inherited"))),
                ["0", "1", "2", "3", "11", "45", "120"], ["1.5", "2,5", "0.5"], BASES)
