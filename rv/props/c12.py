"""C12 — timezone settings preserve the instant; awareness follows the setting."""
import calendar
from datetime import datetime, timedelta, timezone

from ..gen.common import dst_edges, rng, table_offset_of, zone_pools
from ..hooks import AnchorCounter
from ..monitors import PathTap
from ..util import iso, parse_iso

LEVEL = "exploration"
RULE = ("ordered zone pairs (A=TIMEZONE, B=TO_TIMEZONE or absent) from pytz.common_timezones (thorough: every zone appears as A "
        "and as B), table-only abbreviations, numeric offsets and dual names x local datetimes 1950-2037 (rejected when "
        "ambiguous/non-existent in A or ambiguous in B) x five parsers (absolute; absolute string carrying one of the supported "
        "offsets with TIMEZONE as a third zone; custom format; epoch; relative with RELATIVE_BASE and no transition inside the "
        "span) x three awareness settings; TIMEZONE='local' in sub-processes under four TZ= values. Oracle: "
        "A.localize(d, is_dst=None).astimezone(B) via pytz / fixed table offsets / zoneinfo for 'local'; aware iff setting True, "
        "or default and the string named a zone. non-trivial distinct = distinct (parser, string, settings) whose accepted "
        "parser (path tap) is the intended one.")
ASSUMPTIONS = ["pytz is the reference zone database (the library's own); zoneinfo for TIMEZONE='local' (tzlocal)",
               "names known to both pytz and the library's table: every pytz/table reading of A and of B is accepted "
               "(instant and wall clock must match one combination)"]
TIMEOUT = {"quick": 600, "thorough": 3600}
ANCHORS = [("dateparser.utils", "localize_timezone"), ("dateparser.utils", "apply_timezone"),
           ("dateparser.utils", "apply_timezone_from_settings"), ("dateparser.date_parser", "DateParser.parse"),
           ("dateparser.freshness_date_parser", "FreshnessDateDataParser.parse"), ("dateparser.date", "get_date_from_timestamp")]
N_CASES = {"quick": 60000, "thorough": 900000}
LOCAL_TZS = ["America/New_York", "Asia/Kolkata", "Australia/Lord_Howe", "UTC"]
OFFSET_NAMES = ["+0530", "-0800", "UTC+3", "UTC-09:30", "GMT+2", "+05:45", "UTC+14:00", "-1200", "UTC+08:45", "UTC-03:30"]
KINDS = ["abs", "abs_strtz", "fmt", "ts", "rel", "rel_aware", "rel_strtz"]
WANT_PATH = {"abs": ("absolute-time",), "abs_strtz": ("absolute-time",), "fmt": ("raw-format", "custom-formats"),
             "ts": ("timestamp",), "rel": ("relative-time",), "rel_aware": ("relative-time",), "rel_strtz": ("relative-time",)}
# zones an aware RELATIVE_BASE is given in (fixed offsets incl. zero, pytz zones incl. UTC itself)
BASE_ZONES = ["utc", "pytz.utc", "+05:30", "-08:00", "+00:00", "Europe/London", "Asia/Tokyo", "America/New_York", "Asia/Kolkata"]


def base_tzinfo(name):
    import pytz

    if name == "utc":
        return timezone.utc
    if name == "pytz.utc":
        return pytz.utc
    if name[0] in "+-":
        sign = -1 if name[0] == "-" else 1
        return timezone(sign * timedelta(hours=int(name[1:3]), minutes=int(name[4:6])))
    return pytz.timezone(name)


def abbreviations():
    """Abbreviations of the library's table that pytz does not know as a zone name (so the string's reading is the table's)."""
    return pools()[1]


def shards(tier, seed):
    k = 12
    out = [{"part": "pairs", "i": i, "k": k, "n": N_CASES[tier] // k} for i in range(k)]
    for tz in LOCAL_TZS:
        out.append({"part": "local", "tz": tz, "n": N_CASES[tier] // 40})
    return out


def env_for(desc):
    return {"TZ": desc["tz"]} if desc.get("part") == "local" else None


_POOLS = None


def pools():
    global _POOLS
    if _POOLS is None:
        _POOLS = zone_pools()
    return _POOLS


def readings(name):
    """Every tzinfo reading of a zone name the library may take (pytz and/or table)."""
    import pytz

    out = []
    try:
        out.append(("pytz", pytz.timezone(name)))
    except Exception:
        pass
    off = table_offset_of(name)
    if off is not None:
        out.append(("table", timezone(off)))
    return out


def localize(tz, d):
    """Aware datetime, or None if d is ambiguous / non-existent in tz."""
    import pytz

    if hasattr(tz, "localize"):
        try:
            return tz.localize(d, is_dst=None)
        except (pytz.AmbiguousTimeError, pytz.NonExistentTimeError):
            return None
    return d.replace(tzinfo=tz)


def supported_offsets():
    from dateparser.timezones import timezone_info_list

    return [off for pat, off in timezone_info_list[0]["timezones"]]


def pick_zone(rnd, iana_cycle=None):
    single_iana, single_abbr, dual = pools()
    k = rnd.random()
    if k < 0.6:
        return iana_cycle if iana_cycle else rnd.choice(single_iana)
    if k < 0.75:
        return rnd.choice(single_abbr)
    if k < 0.9:
        return rnd.choice(OFFSET_NAMES)
    return rnd.choice(dual)


_EDGES = {}


def near_edges(zone):
    if zone is None:
        return []
    if zone not in _EDGES:
        try:
            _EDGES[zone] = dst_edges(zone, 1950, 2037)
        except Exception:
            _EDGES[zone] = []
    return _EDGES[zone]


def gen_case(rnd, a_iana=None, b_iana=None):
    A = pick_zone(rnd, a_iana)
    B = pick_zone(rnd, b_iana) if rnd.random() < 0.8 else None
    y, m = rnd.randrange(1950, 2038), rnd.randrange(1, 13)
    d = datetime(y, m, rnd.randrange(1, calendar.monthrange(y, m)[1] + 1), rnd.randrange(24), rnd.randrange(60), rnd.randrange(60))
    if rnd.random() < 0.25:
        # a local time close to (but, after the generator's rejection step, outside) a clock change of A or B:
        # minutes before the gap/fold opens or after it closes, where a wrong is_dst guess or a stale offset shows
        for z in (A, B):
            edges = near_edges(z)
            if edges:
                t, before, after = rnd.choice(edges)
                lo, hi = sorted([t + before, t + after])
                d = rnd.choice([lo - timedelta(minutes=rnd.choice([1, 30, 59, 61, 121])),
                                hi + timedelta(minutes=rnd.choice([0, 1, 30, 59, 61, 121]))]).replace(microsecond=0)
                if z == B and B is not None:
                    # d was chosen as wall time of B; keep it as a wall time in A all the same (any valid local time will do)
                    pass
                break
    c = {"A": A, "B": B, "d": iso(d), "aware": rnd.choice([True, False, None]), "kind": rnd.choice(KINDS)}
    if c["kind"] in ("abs_strtz", "rel_strtz"):
        c["str_off"] = rnd.choice(supported_offsets())
        if rnd.random() < 0.5:
            # a zone abbreviation instead of a numeric offset; half of the time the abbreviation the TIMEZONE zone itself
            # uses at that moment, when the library's table lists it (IST for Asia/Kolkata, CST for Asia/Shanghai ...):
            # the string's zone is what the table says, whatever TIMEZONE calls itself
            ab = rnd.choice(abbreviations())
            if rnd.random() < 0.5:
                import pytz

                try:
                    own = pytz.timezone(A).localize(d).tzname()
                    if own in abbreviations():
                        ab = own
                except Exception:
                    pass
            off = table_offset_of(ab)
            if off is not None and all(ch.isalpha() and ch.isascii() for ch in ab):
                c["str_abbr"], c["str_off"] = ab, int(off.total_seconds())
    if c["kind"] == "rel_aware":
        c["base_zone"] = rnd.choice(BASE_ZONES)
        c["rel"] = ["hours", rnd.choice([1, 2, 5])] if rnd.random() < 0.7 else ["minutes", rnd.choice([10, 90])]
        c["rel_dir"] = rnd.choice(["ago", "in"])
        if c["B"] is None and c["aware"] is not True:
            c["aware"] = True      # without TO_TIMEZONE only the instant is determined, so it has to be observable
    if c["kind"] == "rel_strtz":
        c["rel"] = ["hours", rnd.choice([1, 2, 5])]
        c["rel_dir"] = rnd.choice(["ago", "in"])
    if c["kind"] == "rel":
        c["rel"] = rnd.choice([["days", rnd.choice([1, 2, 7, 30])], ["hours", rnd.choice([1, 5, 36])]])
        c["rel_dir"] = rnd.choice(["ago", "in"])
    return c


def expected_candidates(c, local_tz=None):
    """List of (instant aware UTC, wall clock naive in target) or None if the case is rejected."""
    import pytz

    d = parse_iso(c["d"])
    A, B = c["A"], c["B"]
    UTC = timezone.utc
    if A == "local":
        import zoneinfo

        za = zoneinfo.ZoneInfo(local_tz)
        a0, a1 = d.replace(tzinfo=za, fold=0), d.replace(tzinfo=za, fold=1)
        if a0.utcoffset() != a1.utcoffset() or a0.astimezone(UTC).astimezone(za).replace(tzinfo=None) != d:
            return None
        a_readings = [("zoneinfo", za)]
    else:
        a_readings = readings(A)
    target = B if B is not None else A
    if target == "local":
        b_readings = a_readings
    else:
        b_readings = readings(target)
    if not a_readings or not b_readings:
        return None
    out = []
    for _, ta in a_readings:
        if c["kind"] == "abs_strtz":
            inst = (d - timedelta(seconds=c["str_off"])).replace(tzinfo=UTC)
        elif c["kind"] == "rel_aware":
            # an aware reference time is an instant: the phrase moves it, TIMEZONE has nothing to re-interpret
            bt = base_tzinfo(c["base_zone"])
            base = localize(bt, d)
            if base is None:
                return None
            n = c["rel"][1] * (-1 if c["rel_dir"] == "ago" else 1)
            inst = base.astimezone(UTC) + timedelta(**{c["rel"][0]: n})
            if hasattr(bt, "localize") and inst.astimezone(bt).utcoffset() != base.utcoffset():
                return None     # a clock change of the base's zone inside the span
        elif c["kind"] == "rel_strtz":
            # naive reference time read in TIMEZONE, moved by the phrase; the zone in the phrase only re-expresses it
            base = localize(ta, d) if A != "local" else d.replace(tzinfo=ta)
            if base is None:
                return None
            n = c["rel"][1] * (-1 if c["rel_dir"] == "ago" else 1)
            inst = base.astimezone(UTC) + timedelta(**{c["rel"][0]: n})
        elif c["kind"] == "rel":
            base = localize(ta, d) if A != "local" else d.replace(tzinfo=ta)
            if base is None:
                return None
            n = c["rel"][1] * (-1 if c["rel_dir"] == "ago" else 1)
            delta = timedelta(**{c["rel"][0]: n})
            res_wall = d + delta
            res = localize(ta, res_wall) if A != "local" else res_wall.replace(tzinfo=ta)
            if res is not None and A == "local" and res.astimezone(UTC).astimezone(ta).replace(tzinfo=None) != res_wall:
                return None  # the moved wall time falls into a DST gap of the local zone (zoneinfo does not refuse it, pytz does)
            if res is None or res.utcoffset() != base.utcoffset():
                return None  # a transition inside the span: two defensible instants
            # also require no transition strictly inside the span
            mid = base.astimezone(UTC) + (res.astimezone(UTC) - base.astimezone(UTC)) / 2
            if mid.astimezone(ta).utcoffset() != base.utcoffset():
                return None
            inst = res.astimezone(UTC)
        else:
            la = localize(ta, d) if A != "local" else d.replace(tzinfo=ta)
            if la is None:
                return None
            inst = la.astimezone(UTC)
        for _, tb in b_readings:
            if c["kind"] == "rel_aware" and B is None:
                tb = base_tzinfo(c["base_zone"])      # no target zone: only the instant is asserted (aware is forced True)
            if c["kind"] == "rel_strtz" and B is None:
                tb = timezone(timedelta(seconds=c["str_off"]))
            wall = inst.astimezone(tb).replace(tzinfo=None)
            if hasattr(tb, "localize") and localize(tb, wall) is None:
                return None  # ambiguous image in B
            out.append((inst, wall))
    return out


def zone_suffix(c):
    if c.get("str_abbr"):
        return c["str_abbr"]
    tot = c["str_off"] // 60
    return "%s%02d:%02d" % ("+" if tot >= 0 else "-", abs(tot) // 60, abs(tot) % 60)


def build_call(c):
    d = parse_iso(c["d"])
    st = {"TIMEZONE": c["A"]}
    if c["B"] is not None:
        st["TO_TIMEZONE"] = c["B"]
    if c["aware"] is not None:
        st["RETURN_AS_TIMEZONE_AWARE"] = c["aware"]
    kw = {}
    named_zone = False
    k = c["kind"]
    if k == "abs":
        s = d.strftime("%Y-%m-%d %H:%M:%S")
    elif k == "abs_strtz":
        tot = c["str_off"] // 60
        s = d.strftime("%Y-%m-%d %H:%M:%S") + " " + zone_suffix(c)
        named_zone = True
    elif k == "rel_aware":
        n, unit = c["rel"][1], c["rel"][0]
        s = ("%d %s ago" % (n, unit)) if c["rel_dir"] == "ago" else ("in %d %s" % (n, unit))
        bt = base_tzinfo(c["base_zone"])
        st["RELATIVE_BASE"] = bt.localize(d) if hasattr(bt, "localize") else d.replace(tzinfo=bt)
    elif k == "rel_strtz":
        n, unit = c["rel"][1], c["rel"][0]
        s = (("%d %s ago" % (n, unit)) if c["rel_dir"] == "ago" else ("in %d %s" % (n, unit))) + " " + zone_suffix(c)
        st["RELATIVE_BASE"] = d
        named_zone = True
    elif k == "fmt":
        s = d.strftime("%d/%m/%Y %H-%M-%S")
        kw["date_formats"] = ["%d/%m/%Y %H-%M-%S"]
    elif k == "ts":
        s = None  # filled from the instant
    else:
        n, unit = c["rel"][1], c["rel"][0]
        s = ("%d %s ago" % (n, unit)) if c["rel_dir"] == "ago" else ("in %d %s" % (n, unit))
        st["RELATIVE_BASE"] = d
    return s, st, kw, named_zone


def check_case(ctx, c, local_tz=None):
    import dateparser

    ctx.remember(check_case, c, local_tz)
    cands = expected_candidates(c, local_tz)
    if not cands:
        ctx.count("rejected:ambiguous-or-unresolvable")
        return
    s, st, kw, named_zone = build_call(c)
    if c["kind"] == "ts":
        # the epoch literal denotes the instant under the first (pytz-first) reading of A
        inst0 = cands[0][0]
        secs = int((inst0 - datetime(1970, 1, 1, tzinfo=timezone.utc)).total_seconds())
        if not (10 ** 9 <= secs < 10 ** 10):
            ctx.count("rejected:epoch-not-10-digits")
            return
        s = str(secs)
        cands = [(inst0, w) for i, w in cands if i == inst0]
    PathTap.reset()
    try:
        r = dateparser.parse(s, languages=["en"], settings=st, **kw)
    except Exception as e:
        r = e
    ctx.ran()
    path = PathTap.accepted(WANT_PATH[c["kind"]])
    want_aware = c["aware"] is True or (c["aware"] is None and named_zone)
    dual = len({i for i, w in cands}) > 1 or len({w for i, w in cands}) > 1
    feats = {"kind": c["kind"], "aware": c["aware"], "dual": dual, "has_B": c["B"] is not None, "path": path,
             "local": c["A"] == "local"}
    cj = dict(c, string=s, local_tz=local_tz)
    exp = [{"instant": iso(i), "wall": iso(w)} for i, w in cands]
    if not isinstance(r, datetime):
        ctx.violation(cj, r, exp, "tz-setting:no-result", feats)
        return
    if (r.tzinfo is not None) != want_aware:
        ctx.violation(cj, r, {"aware": want_aware}, "tz-setting:awareness", feats)
        return
    if want_aware:
        ok = any(r == i and r.replace(tzinfo=None) == w for i, w in cands)
    else:
        ok = any(r == w for i, w in cands)
    if not ok:
        ctx.violation(cj, r, exp, "tz-setting:instant", feats)
        return
    if path not in WANT_PATH[c["kind"]]:
        ctx.count("off_path:%s:%s" % (c["kind"], path))
        return
    ctx.count("on_path:%s" % c["kind"])
    ctx.count("aware:%s" % c["aware"])
    ctx.count("zones:%s" % ("dual" if dual else "single"))
    ctx.nontrivial(c["kind"], s, c["A"], c["B"], c["aware"], c.get("rel"), c.get("rel_dir"), c["d"])
    ctx.sample({"kind": c["kind"], "string": s, "settings": {k: v for k, v in st.items()}, "result": iso(r)}, limit=3)


def check_rel_now(ctx, rnd):
    """Relative phrase that names a zone, no reference time given: the result is the current instant moved by the phrase
    (bracketed by two harness clock reads), aware, expressed in TO_TIMEZONE / TIMEZONE (the phrase's zone under 'local')."""
    import dateparser

    A = pick_zone(rnd) if rnd.random() < 0.8 else "local"
    B = pick_zone(rnd) if rnd.random() < 0.5 else None
    aware = rnd.choice([True, None])
    c = {"kind": "rel_strtz", "str_off": rnd.choice(supported_offsets())}
    if rnd.random() < 0.5:
        ab = rnd.choice(abbreviations())
        off = table_offset_of(ab)
        if off is not None and all(ch.isalpha() and ch.isascii() for ch in ab):
            c["str_abbr"], c["str_off"] = ab, int(off.total_seconds())
    n, direction = rnd.choice([1, 2, 5, 30]), rnd.choice(["ago", "in"])
    unit = rnd.choice(["hours", "minutes"])
    s = (("%d %s ago" % (n, unit)) if direction == "ago" else ("in %d %s" % (n, unit))) + " " + zone_suffix(c)
    st = {"TIMEZONE": A}
    if B is not None:
        st["TO_TIMEZONE"] = B
    if aware is not None:
        st["RETURN_AS_TIMEZONE_AWARE"] = aware
    delta = timedelta(**{unit: n}) * (-1 if direction == "ago" else 1)
    t0 = datetime.now(timezone.utc)
    try:
        r = dateparser.parse(s, languages=["en"], settings=st)
    except Exception as e:
        r = e
    t1 = datetime.now(timezone.utc)
    ctx.ran()
    case = {"kind": "rel_strtz_now", "string": s, "A": A, "B": B, "aware": aware, "str_off": c["str_off"], "str_abbr": c.get("str_abbr")}
    feats = {"kind": "rel_strtz_now", "aware": aware, "has_B": B is not None, "local": A == "local"}
    if not isinstance(r, datetime) or r.tzinfo is None:
        ctx.violation(case, r, "an aware datetime", "tz-setting:awareness" if isinstance(r, datetime) else "tz-setting:no-result", feats)
        return
    slack = timedelta(seconds=2)
    if not (t0 + delta - slack <= r <= t1 + delta + slack):
        ctx.violation(case, r, {"between": [iso(t0 + delta), iso(t1 + delta)]}, "tz-setting:instant", feats)
        return
    target = B if B is not None else A
    if target == "local":
        offs = {timedelta(seconds=c["str_off"])}
    else:
        offs = set()
        for _, tz in readings(target):
            offs.add(r.astimezone(tz).utcoffset())
    if r.utcoffset() not in offs:
        ctx.violation(case, r, {"utcoffset_one_of": sorted(str(o) for o in offs)}, "tz-setting:expressed-in-wrong-zone", feats)
        return
    ctx.count("on_path:rel_strtz_now")
    ctx.nontrivial("rel_strtz_now", s, A, B, aware)


def run_shard(ctx, desc):
    import dateparser  # noqa
    import pytz

    PathTap.install()
    ac = AnchorCounter(ANCHORS).start()
    try:
        if desc["part"] == "pairs":
            rnd = rng(ctx.seed, "C12", desc["i"])
            single_iana = pools()[0]
            mine = single_iana[desc["i"]::desc["k"]]
            j = 0
            seen_a, seen_b = set(), set()
            for n in range(desc["n"]):
                a_i = b_i = None
                if ctx.tier == "thorough" or n < 2 * len(mine):
                    # cycle so that every IANA zone of this shard appears as A and as B
                    a_i = mine[j % len(mine)] if n % 2 == 0 else None
                    b_i = mine[j % len(mine)] if n % 2 == 1 else None
                    j += n % 2
                c = gen_case(rnd, a_i, b_i)
                seen_a.add(c["A"])
                seen_b.add(c["B"])
                check_case(ctx, c)
                if n % 25 == 0:
                    check_rel_now(ctx, rnd)
            ctx.count("distinct_A_zones_in_shard", len(seen_a))
            ctx.count("distinct_B_zones_in_shard", len(seen_b))
        else:
            rnd = rng(ctx.seed, "C12l", LOCAL_TZS.index(desc["tz"]))
            for _ in range(desc["n"]):
                c = gen_case(rnd)
                c["A"] = "local"
                if c["kind"] in ("abs_strtz", "rel_strtz"):
                    c["kind"] = {"abs_strtz": "abs", "rel_strtz": "rel"}[c["kind"]]
                    if "rel" in c:
                        c["rel"], c["rel_dir"] = ["hours", 5], c.get("rel_dir", "ago")
                check_case(ctx, c, local_tz=desc["tz"])
        ctx.reask()
    finally:
        ac.stop()
    for k, v in ac.counts.items():
        ctx.count("anchor:" + k, v)


def finalize(merged, tier, seed):
    c = merged["counters"]
    inc = []
    for k in KINDS:
        if c.get("on_path:%s" % k, 0) < 300:
            inc.append("parser kind %s decided only %d cases" % (k, c.get("on_path:%s" % k, 0)))
    for a in ("True", "False", "None"):
        if c.get("aware:%s" % a, 0) < 300:
            inc.append("awareness setting %s decided too few cases" % a)
    return {"inconclusive": inc, "anchors_hit": {k[7:]: v for k, v in c.items() if k.startswith("anchor:")}}


def replay_case(ctx, v):
    import os
    import time

    PathTap.install()
    c = dict(v["case"])
    if c.get("kind") == "rel_strtz_now":
        return      # depends on the clock: the harness re-runs the witness's shard (deterministic in seed/tier/shard)
    ltz = c.pop("local_tz", None)
    c.pop("string", None)
    if ltz:
        os.environ["TZ"] = ltz
        time.tzset()
    check_case(ctx, c, local_tz=ltz)
