"""C20 — concurrent calls return what the same calls return sequentially."""
import json
import os
import random
import sys
import threading
import time

from .. import calls as C
from ..gen.common import rng
from ..hooks import AnchorCounter
from ..monitors import ConservationMonitor
from ..sched import Scheduler
from ..util import repo_path

LEVEL = "exploration"
RULE = ("schedule exploration with real threads: for ordered pairs (A, B) of calls from a 21-call pool (same string under two "
        "languages, same language under settings differing in DATE_ORDER / PREFER_* / TIMEZONE / NORMALIZE / SKIP_TOKENS / "
        "CACHE_SIZE_LIMIT, relative phrase, search_dates in two languages, a shared long-lived DateDataParser, a Jalali call, a "
        "call that raises SettingValidationError, the default-settings call), thread A is pre-empted once when about to execute "
        "its k-th library line (sys.monitoring LINE), B runs to completion or until it blocks, A resumes. quick: per pair and "
        "direction the first k of every distinct (file, line) location (seeded sample of 140 when there are more) + 30 seeded random k; thorough: every k of calls up to 4000 library lines, else every distinct location + a seeded sample up to 4000. Plus "
        "free-running stress (8 threads x random pool calls, switch interval 1 us, seeded yield injection) and cold-start rounds "
        "(fresh interpreters whose very first library calls are made by 8 threads released by a barrier). Oracle: each call's outcome equals its "
        "fresh-process sequential outcome. non-trivial distinct = distinct realised schedules (pair, direction, k) + stress rounds.")
ASSUMPTIONS = ["exactly one pre-emption per controlled schedule, at line granularity inside the library (switches inside C-level "
               "calls or between bytecodes of one line are not explored); the stress part adds uncontrolled multi-switch runs",
               "sequential reference = the call made alone in a pristine process (as in C03)"]
TIMEOUT = {"quick": 900, "thorough": 14400}
MAX_WORKERS = 16
ANCHORS = [("dateparser.conf", "Settings.__init__"), ("dateparser.date", "_DateLocaleParser._try_parser"),
           ("dateparser.languages.locale", "Locale._get_dictionary"), ("dateparser.languages.dictionary", "Dictionary._add_to_cache"),
           ("dateparser.search.search", "_ExactLanguageSearch.search")]


def mk(name, api, s, lang, st=None, nobase=False, **kw):
    d = {"name": name, "api": api, "s": s, "lang": lang, "st": st or {}, "nobase": nobase}
    d.update(kw)
    return d


POOL = [
    mk("fr_num", "parse", "02/03/2015", "fr"), mk("en_num", "parse", "02/03/2015", "en"),
    mk("en_dmy", "parse", "02/03/2015", "en", {"DATE_ORDER": "DMY"}),
    mk("en_past", "parse", "Monday", "en", {"PREFER_DATES_FROM": "past"}),
    mk("en_future", "parse", "Monday", "en", {"PREFER_DATES_FROM": "future"}),
    mk("en_tz", "parse", "12 May 2015 10:30", "en", {"TIMEZONE": "Asia/Tokyo", "TO_TIMEZONE": "UTC"}),
    mk("en_tz2", "parse", "12 May 2015 10:30", "en", {"TIMEZONE": "America/New_York", "TO_TIMEZONE": "UTC"}),
    mk("fr_nonorm", "parse", "12 février 2015", "fr", {"NORMALIZE": False}), mk("fr_norm", "parse", "12 fevrier 2015", "fr"),
    mk("en_skip", "parse", "t 12 May 2015 xyz", "en", {"SKIP_TOKENS": ["xyz"]}),
    mk("en_noskip", "parse", "t 12 May 2015 xyz", "en", {"SKIP_TOKENS": []}),
    mk("rel_en", "parse", "in 2 days", "en"), mk("rel_de", "parse", "vor 2 Tagen", "de"),
    mk("search_fr", "search", "Nous sommes le 02/03/2011. Hier il a plu.", "fr", adl=False),
    mk("search_en", "search", "It was on 12 May 2015 and then yesterday again", "en", adl=True),
    mk("inst_en", "inst", "02/03/2015", "en"), mk("inst_en2", "inst", "12 May 2015", "en"),
    mk("jalali", "jalali", "13 مرداد 1395", None),
    mk("bad", "parse", "12 May 2015", "en", {"BOGUS": 1}),
    mk("fr_cache1", "parse", "12 mai 2015", "fr", {"CACHE_SIZE_LIMIT": 1}),
    mk("de_cache1", "parse", "3. Januar 2011", "de", {"CACHE_SIZE_LIMIT": 1, "DATE_ORDER": "DMY"}),
    mk("default", "parse", "02/03/2015", None, nobase=True),
    mk("fmt_en", "parse", "05/12/2015", "en", formats=["%d/%m/%Y"]), mk("fmt_fr", "ddp", "12 mai 2015", "fr", formats=["%d %B %Y"]),
    mk("region_gb", "ddp", "02/03/2015", None, langs=["en"], region="GB"), mk("loc_ca", "ddp", "3 mth ago", None, locales=["en-CA"]),
    mk("hijri", "hijri", "1437/05/13", None), mk("search_auto", "search", "Meeting on 02/03/2015 at 10:45", None, adl=True),
    mk("multi", "ddp", "02/03/2015", None, langs=["fr", "en"], ugo=True),
    # search_dates does some work before it reaches the library's lock (text preprocessing, per-language preparation):
    # texts without digits, a Russian text with the 'с <number>' range form, an autodetected text without digits
    mk("en_skipfoo", "parse", "foo 12 May 2015", "en", {"SKIP_TOKENS": ["foo"]}),    # parses only because of its SKIP_TOKENS
    mk("fr_skip_nonorm", "parse", "bar 12 février 2015", "fr", {"SKIP_TOKENS": ["bar"], "NORMALIZE": False}),
    # caller-supplied formats together with zone settings (DateDataParser entry point), two different zones
    mk("fmt_tz_est", "ddp", "12.05.2015 10:30", "en", {"TIMEZONE": "EST", "TO_TIMEZONE": "UTC"}, formats=["%d.%m.%Y %H:%M"]),
    mk("fmt_tz_tokyo", "ddp", "12.05.2015 10:30", "en", {"TIMEZONE": "Asia/Tokyo", "TO_TIMEZONE": "UTC"}, formats=["%d.%m.%Y %H:%M"]),
    mk("fmt_tz_pkt_aware", "inst", "12.05.2015 10:30", "en", {"TIMEZONE": "PKT", "RETURN_AS_TIMEZONE_AWARE": True}, formats=["%d.%m.%Y %H:%M"]),
    # one long-lived parser with two languages, asked for strings of either language (the reported locale is part of the outcome)
    mk("inst_multi_fr", "inst", "12 mai 2015 10:30", None, langs=["fr", "en"]),
    mk("inst_multi_en", "inst", "12 May 2015 10:30", None, langs=["fr", "en"]),
    # numeric calendar dates whose day and month are both <= 12 (their reading depends on the date order in force), and a
    # French call under default settings (it rewrites the order on the shared default settings object while it runs)
    mk("hijri_amb", "hijri", "1432-05-09", None), mk("jalali_amb", "jalali", "1394/05/09", None),
    mk("fr_default", "parse", "02/03/2015", "fr", nobase=True),
    mk("search_en_words", "search", "It happened yesterday and again on Monday", "en", adl=False),
    mk("search_ru_range", "search", "Это было с 12 января по 30 апреля 2021", "ru", adl=False),
    mk("search_de_words", "search", "Es war gestern und vorgestern", "de", adl=True),
    mk("search_auto_words", "search", "We met yesterday, then last week", None, adl=True),
    # settings given as a Settings instance instead of a dict
    mk("search_fr_inst", "search", "Nous sommes le 11 septembre 2014 et le 3 mars 2015.", "fr", {"PREFER_DATES_FROM": "past"},
       adl=False, as_instance=True),
    mk("en_dmy_inst", "parse", "02/03/2015", "en", {"DATE_ORDER": "DMY"}, as_instance=True),
    # regional locales whose own overrides decide the reading (date order of en-AU; 'mth' of en-CA is above)
    mk("loc_au", "ddp", "01/02/2015", None, locales=["en-AU"]), mk("loc_fr_ca", "ddp", "01/02/2015", None, locales=["fr-CA"]),
    mk("search_en_first", "search", "It was on 4 October 1957", "en", adl=False),
    # paths no other pool call enters: epoch literal under a zone, DEFAULT_LANGUAGES fallback, a zone written in the string
    # (stripped for the applicability test), a search text that only parses after being split at commas
    mk("ts_tokyo", "parse", "1500000000", "en", {"TIMEZONE": "Asia/Tokyo", "TO_TIMEZONE": "UTC"}),
    mk("deflang_fr", "parse", "12 mai 2015", "en", {"DEFAULT_LANGUAGES": ["fr"]}),
    mk("en_strtz", "parse", "12 May 2015 10:30 EST", "en", {"TO_TIMEZONE": "UTC"}),
    mk("search_en_split", "search", "May 5, 2014, June 6, 2015, then nothing", "en", adl=False),
    # no reference time given: search_dates takes the date found first as the reference of the relative phrase after it
    # (it rewrites the settings of its parser to do so); and a language searched without prior translation (hu)
    mk("search_en_relbase", "search", "I saw him on 12 May 2015. two days ago it rained", "en", adl=False, nobase=True),
    mk("search_fr_relbase", "search", "Nous sommes le 3 mars 2011. Hier il a plu.", "fr", adl=False, nobase=True),
    mk("search_hu", "search", "2015. május 12. volt", "hu", adl=True),
    mk("search_ru_range_b", "search", "Работал с 3 марта по 5 мая 2020", "ru", adl=False),
]
for _i, _c in enumerate(POOL):
    _c["id"] = _i
BY = {c["name"]: c for c in POOL}
FAST_POOL = [c for c in POOL if not c["name"].startswith("search_auto")]   # stress/cold rounds: without language autodetection
PAIRS = [("fr_num", "en_num"), ("en_num", "en_dmy"), ("fr_num", "default"), ("en_past", "en_future"), ("en_tz", "en_tz2"),
         ("fr_nonorm", "fr_norm"), ("en_skip", "en_noskip"), ("rel_en", "rel_de"), ("rel_en", "en_num"),
         ("search_fr", "search_en"), ("search_en", "inst_en"), ("inst_en", "inst_en2"), ("inst_en", "fr_num"),
         ("jalali", "fr_num"), ("bad", "en_num"), ("bad", "fr_num"), ("fr_cache1", "de_cache1"), ("fr_cache1", "en_num"),
         ("search_fr", "fr_num"), ("en_num", "en_num"), ("fr_num", "fr_num"), ("search_en", "search_en"),
         ("en_dmy", "fr_num"), ("default", "en_dmy"), ("en_tz", "fr_nonorm"),
         ("fmt_en", "en_num"), ("fmt_fr", "fr_num"), ("region_gb", "en_num"), ("loc_ca", "rel_en"), ("hijri", "jalali"),
         ("search_auto", "fr_num"), ("multi", "en_dmy"), ("region_gb", "multi"),
         ("en_skip", "search_en_words"), ("en_noskip", "search_en_words"), ("search_ru_range", "search_en"),
         ("search_ru_range", "search_fr"), ("search_de_words", "rel_de"),
         ("search_en_words", "search_ru_range"), ("en_skipfoo", "search_en_words"), ("en_skipfoo", "en_num"),
         ("fr_skip_nonorm", "search_fr"), ("en_skipfoo", "search_en"),
         ("fmt_tz_est", "fmt_tz_tokyo"), ("fmt_tz_pkt_aware", "fmt_tz_est"), ("inst_multi_fr", "inst_multi_en"),
         ("inst_multi_fr", "fr_num"), ("fr_default", "hijri_amb"), ("fr_default", "jalali_amb"), ("hijri_amb", "jalali_amb")]


PAIRS += [("search_fr_inst", "search_en"), ("en_dmy_inst", "fr_num"), ("search_fr_inst", "en_dmy_inst"), ("loc_au", "en_num"),
          ("loc_au", "loc_fr_ca"), ("ts_tokyo", "en_tz2"), ("deflang_fr", "fr_num"), ("en_strtz", "en_tz"),
          ("search_en_split", "search_fr"), ("search_en_relbase", "search_fr_relbase"), ("search_en_relbase", "search_en"),
          ("search_hu", "search_en"), ("search_fr_relbase", "fr_num")]
# cold schedules (fresh interpreter per schedule, A's call is the first use of everything it touches): A, B
COLD_PAIRS = [("search_en_first", "loc_au"), ("search_fr", "loc_fr_ca"), ("loc_au", "search_en_first"), ("en_num", "loc_au"),
              ("loc_ca", "loc_au"), ("rel_de", "search_de_words"), ("search_ru_range", "search_ru_range_b"),
              ("search_ru_range_b", "search_ru_range"), ("search_de_words", "search_hu")]
COLD_FILES = ("languages/loader.py", "conf.py")     # quick: every line of these; a seeded sample of the others


# pairs explored with two pre-emptions (A outside the lock while B is half-way): calls that do work outside the lock
TWO_PREEMPTIONS = {("search_en_relbase", "search_fr_relbase"), ("hijri_amb", "fr_default"), ("jalali_amb", "fr_default"), ("search_ru_range", "search_en"),
                   ("search_en_words", "en_skipfoo"), ("fmt_tz_est", "fmt_tz_tokyo")}


def shards(tier, seed):
    srv = C.ForkServer(0)
    try:
        refs = {c["name"]: srv.run([C.ref_call(c)])[0] for c in POOL}
    finally:
        srv.close()
    out = []
    for i, (a, b) in enumerate(PAIRS):
        out.append({"part": "pair", "a": a, "b": b, "refs": refs, "i": i})
    out.append({"part": "stress", "refs": refs, "rounds": 6 if tier == "quick" else 24})
    # cold start: each shard is a fresh interpreter whose very first library calls are made by 8 threads at once
    for j in range(4 if tier == "quick" else 40):
        out.append({"part": "cold", "refs": refs, "j": j})
    nsl = 2 if tier == "quick" else 8
    for i, (a, b) in enumerate(COLD_PAIRS):
        for sl in range(nsl):
            out.append({"part": "coldsched", "refs": refs, "a": a, "b": b, "i": i, "slice": sl, "nslices": nsl})
    return out


def ref_for(refs, call):
    return refs[call["name"]]


def run_pair(ctx, desc):
    refs = desc["refs"]
    insts = {}
    sched = Scheduler(repo_path() + "/dateparser/")
    rnd = rng(ctx.seed, "C20", desc["i"])
    cons = ConservationMonitor()
    sched.install()
    try:
        for na, nb in ((desc["a"], desc["b"]), (desc["b"], desc["a"])) if desc["a"] != desc["b"] else ((desc["a"], desc["b"]),):
            ca, cb = BY[na], BY[nb]
            fa = lambda: C.execute(ca, insts)  # noqa
            fb = lambda: C.execute(cb, insts)  # noqa
            # warm up twice (the first call of a locale executes ~17k lines of data loading)
            for _ in range(2):
                sched.run_alone(fa)
                sched.run_alone(fb)
            ea, L, locs = sched.run_alone(fa, record=True)
            eb, _, _ = sched.run_alone(fb)
            if not C.same_outcome(ea, ref_for(refs, ca)) or not C.same_outcome(eb, ref_for(refs, cb)):
                # sequential (warm) outcome differs from the fresh-process one: that is C03's subject; report and stop
                ctx.violation({"pair": [na, nb], "kind": "sequential"}, {"A": ea, "B": eb},
                              {"A": ref_for(refs, ca), "B": ref_for(refs, cb)}, "sequential-differs-from-fresh-process",
                              {"pair": "%s|%s" % (na, nb)})
                continue
            slow = na.startswith("search_auto") or nb.startswith("search_auto")   # language autodetection: ~0.3 s per call
            if ctx.tier == "thorough":
                # every k of a short call; of a long one, the first execution of every distinct location plus a seeded
                # sample of the remaining positions (bounded, so that the tier finishes well inside its watchdog on a
                # loaded machine)
                cap = 150 if slow else 4000
                if L <= cap:
                    ks = set(range(1, L + 1))
                else:
                    first = {}
                    for idx, loc in enumerate(locs):
                        first.setdefault(loc, idx + 1)
                    ks = set(first.values())
                    if len(ks) > cap:
                        ks = set(rnd.sample(sorted(ks), cap))
                    ks |= set(rnd.sample(range(1, L + 1), max(0, cap - len(ks))))
            else:
                first = {}
                for idx, loc in enumerate(locs):
                    first.setdefault(loc, idx + 1)
                ks = sorted(first.values())
                # when B does work before it reaches the library's lock (search_dates does), every location of A matters;
                # otherwise B simply waits while A holds the lock and a seeded sample of A's locations is enough
                cap, extra = (12, 4) if slow else ((300, 30) if cb["api"] in ("search", "hijri", "jalali") else (140, 30))
                if len(ks) > cap:
                    ks = sorted(rnd.sample(ks, cap))
                ks = set(ks) | set(rnd.randrange(1, L + 1) for _ in range(extra))
            # the stretches of A that run outside the lock (before it is taken, after it is released) are where two
            # calls really overlap: every k from the start until B first has to wait, and from the end likewise
            probe_cap = (40 if slow else 400) if ctx.tier == "quick" else (80 if slow else 700)
            outside = []
            for rng_k in (range(1, min(L, probe_cap) + 1), range(L, max(0, L - probe_cap // 2), -1)):
                run_blocked = 0
                for k in rng_k:
                    r0 = sched.schedule(fa, fb, k)
                    ks.add(k)
                    if r0["hung"]:
                        break
                    if r0["fired"] and r0["blocked"]:
                        run_blocked += 1
                        if run_blocked >= 6:      # a short locked section may be followed by more unlocked code
                            break
                        continue
                    run_blocked = 0
                    outside.append(k)
                    ctx.count("outside_lock_probe_schedules")
            ks = sorted(ks)
            two = (na, nb) in TWO_PREEMPTIONS or (nb, na) in TWO_PREEMPTIONS
            if ctx.tier == "thorough" and not slow and cb["api"] in ("search", "hijri", "jalali"):
                two = True       # thorough: every pair whose B works before it reaches the lock
            if two:
                # two pre-emptions: A suspended at a point outside the lock, B suspended somewhere inside its own call,
                # A finishes, B finishes.  (One pre-emption cannot put A outside the lock *while* B is half-way.)
                _, LB, locs_b = sched.run_alone(fb, record=True)
                firstb = {}
                for idx, loc in enumerate(locs_b):
                    firstb.setdefault(loc, idx + 1)
                kbs = sorted(firstb.values())
                kbs = sorted(rnd.sample(kbs, min(len(kbs), 40 if ctx.tier == "quick" else 80)))
                outside = sorted(set(outside))
                n_ka = 8 if ctx.tier == "quick" else 12
                for ka in outside[::max(1, len(outside) // n_ka)][:n_ka + 1]:      # spread evenly over the outside-lock stretch
                    for kb in kbs:
                        r2 = sched.schedule(fa, fb, ka, kb=kb)
                        if r2["hung"]:
                            ctx.inconclusive.append("two-pre-emption schedule hung: pair %s|%s ka=%d kb=%d" % (na, nb, ka, kb))
                            return
                        if not (r2["fired"] and r2["b_fired"]):
                            ctx.count("schedules2_not_realised")
                            continue
                        ctx.ran()
                        ctx.count("schedules2_realised")
                        if r2["a_waited_for_b"]:
                            ctx.count("schedules2_A_waited_for_B")
                        okA = C.same_outcome(r2["A"], ref_for(refs, ca))
                        okB = C.same_outcome(r2["B"], ref_for(refs, cb))
                        if not (okA and okB):
                            ctx.violation({"pair": [na, nb], "k": ka, "kb": kb, "preempted_at": list(r2["loc"]),
                                           "B_preempted_at": list(r2["b_loc"]), "A": ca, "B": cb},
                                          {"A": r2["A"], "B": r2["B"]}, {"A": ref_for(refs, ca), "B": ref_for(refs, cb)},
                                          "concurrent-divergence",
                                          {"pair": "%s|%s" % (na, nb), "who": "A" if okB else ("B" if okA else "both"),
                                           "file": r2["loc"][0], "exc": None, "two_preemptions": True})
                        else:
                            ctx.nontrivial(na, nb, ka, kb)
            ctx.count("lines_in_A:%s" % na, L)
            seen_locs = set()
            for k in ks:
                r = sched.schedule(fa, fb, k)
                if r["hung"]:
                    ctx.inconclusive.append("schedule hung: pair %s|%s k=%d" % (na, nb, k))
                    return
                if not r["fired"]:
                    ctx.count("schedules_not_realised")
                    continue
                ctx.ran()
                ctx.count("schedules_realised")
                if r["blocked"]:
                    ctx.count("schedules_B_blocked")
                seen_locs.add(r["loc"])
                okA = C.same_outcome(r["A"], ref_for(refs, ca))
                okB = C.same_outcome(r["B"], ref_for(refs, cb))
                if not (okA and okB):
                    ctx.violation({"pair": [na, nb], "k": k, "preempted_at": list(r["loc"]), "A": ca, "B": cb,
                                   "B_blocked": r["blocked"]},
                                  {"A": r["A"], "B": r["B"]}, {"A": ref_for(refs, ca), "B": ref_for(refs, cb)},
                                  "concurrent-divergence",
                                  {"pair": "%s|%s" % (na, nb), "who": "A" if okB else ("B" if okA else "both"),
                                   "file": r["loc"][0], "exc": (r["A"] if not okA else r["B"])[1] if (r["A"] if not okA else r["B"])[0] == "exc" else None})
                else:
                    ctx.nontrivial(na, nb, k)
                drift = cons.check(note=(na, nb, k))
                if drift:
                    ctx.count("drift_events", len(drift))
            ctx.count("distinct_preemption_locations", len(seen_locs))
            if len(ctx.samples) < 2:
                ctx.sample({"pair": [na, nb], "lines_in_A": L, "schedules": len(ks),
                            "example_preemption_points": [list(x) for x in list(seen_locs)[:5]]})
    finally:
        sched.uninstall()


class YieldInjector:
    """LINE callback that yields the GIL (time.sleep(0)) at seeded random library lines in every thread:
    many more switch points than the switch interval alone produces."""
    TOOL = 4

    def __init__(self, prefix, seed, p=0.03):
        self.prefix, self.p = prefix, p
        self.rnd = random.Random(seed)
        self.yields = 0
        self.lock = threading.Lock()

    def start(self):
        mon = sys.monitoring
        mon.use_tool_id(self.TOOL, "rv-yield")

        def cb(code, line):
            if not code.co_filename.startswith(self.prefix):
                return mon.DISABLE
            with self.lock:
                hit = self.rnd.random() < self.p
                if hit:
                    self.yields += 1
            if hit:
                time.sleep(0)

        mon.register_callback(self.TOOL, mon.events.LINE, cb)
        mon.set_events(self.TOOL, mon.events.LINE)

    def stop(self):
        mon = sys.monitoring
        mon.set_events(self.TOOL, 0)
        mon.register_callback(self.TOOL, mon.events.LINE, None)
        mon.free_tool_id(self.TOOL)


def run_stress(ctx, desc):
    refs = desc["refs"]
    insts = {}
    for c in POOL:   # warm
        C.execute(c, insts)
    old = sys.getswitchinterval()
    sys.setswitchinterval(1e-6)
    inj = None
    try:
        for rnd_i in range(desc["rounds"]):
            if rnd_i % 2 == 1:
                inj = YieldInjector(repo_path() + "/dateparser/", ctx.seed * 100 + rnd_i)
                inj.start()
            results = []
            lock = threading.Lock()

            # even rounds: the whole pool; odd rounds: few keys, many threads — a handful of calls among which a default-settings
            # call (it rewrites the shared default settings while it runs), an order-sensitive calendar call and two random ones
            rr = random.Random(ctx.seed * 77 + rnd_i)
            sub = FAST_POOL if rnd_i % 2 == 0 else \
                [BY["fr_default"], BY[rr.choice(["hijri_amb", "jalali_amb"])], BY["en_num"]] + rr.sample(FAST_POOL, 2)
            ctx.count("stress_rounds:%s" % ("whole-pool" if rnd_i % 2 == 0 else "few-keys"))

            def worker(wi):
                r = random.Random(ctx.seed * 1000 + rnd_i * 10 + wi)
                for _ in range(150 if rnd_i % 2 == 0 else 320):
                    c = r.choice(sub)
                    out = C.execute(c, insts)
                    with lock:
                        results.append((c["name"], out))

            ts = [threading.Thread(target=worker, args=(i,)) for i in range(8)]
            for t in ts:
                t.start()
            for t in ts:
                t.join(300)
            if any(t.is_alive() for t in ts):
                ctx.inconclusive.append("stress round hung")
                return
            bad = 0
            for name, out in results:
                ctx.ran()
                if not C.same_outcome(out, refs[name]):
                    bad += 1
                    ctx.violation({"kind": "stress", "round": rnd_i, "call": BY[name]}, out, refs[name], "concurrent-divergence",
                                  {"pair": "stress", "who": name, "file": None,
                                   "exc": out[1] if out[0] == "exc" else None})
            ctx.count("stress_calls", len(results))
            if inj is not None:
                inj.stop()
                ctx.count("stress_yields_injected", inj.yields)
                inj = None
            if not bad:
                ctx.nontrivial("stress", rnd_i)
                ctx.count("stress_rounds_clean")
    finally:
        if inj is not None:
            inj.stop()
        sys.setswitchinterval(old)


def run_cold(ctx, desc):
    """Nothing is warmed: locale data, dictionaries, regex caches and the settings registry are first touched concurrently."""
    refs = desc["refs"]
    insts = {}
    r = random.Random(ctx.seed * 7919 + desc["j"])
    plan = [[r.choice(FAST_POOL) for _ in range(6)] for _ in range(8)]
    if desc["j"] % 2 == 0:
        # every thread starts with the same call: concurrent first load of one language
        first = r.choice(FAST_POOL)
        for pl in plan:
            pl[0] = first
    barrier = threading.Barrier(8)
    results, lock = [], threading.Lock()
    old = sys.getswitchinterval()
    sys.setswitchinterval(1e-6)
    inj = YieldInjector(repo_path() + "/dateparser/", ctx.seed * 100 + desc["j"], p=0.01)
    inj.start()

    def worker(wi):
        barrier.wait()
        for c in plan[wi]:
            out = C.execute(c, insts)
            with lock:
                results.append((c["name"], out))

    try:
        ts = [threading.Thread(target=worker, args=(i,)) for i in range(8)]
        for t in ts:
            t.start()
        for t in ts:
            t.join(600)
        if any(t.is_alive() for t in ts):
            ctx.inconclusive.append("cold-start round hung")
            return
    finally:
        inj.stop()
        sys.setswitchinterval(old)
    bad = 0
    for name, out in results:
        ctx.ran()
        if not C.same_outcome(out, refs[name]):
            bad += 1
            ctx.violation({"kind": "stress", "round": "cold-%d" % desc["j"], "call": BY[name]}, out, refs[name],
                          "concurrent-divergence", {"pair": "cold-start", "who": name, "file": None,
                                                    "exc": out[1] if out[0] == "exc" else None})
    ctx.count("cold_start_calls", len(results))
    ctx.count("cold_start_yields_injected", inj.yields)
    if not bad:
        ctx.nontrivial("cold", desc["j"])
        ctx.count("cold_start_rounds_clean")


def cold_job(job, timeout=300):
    import subprocess

    p = subprocess.run([sys.executable, "-m", "rv.props.c20_coldrun", json.dumps(job)], capture_output=True, text=True,
                       timeout=timeout)
    if p.returncode != 0 or not p.stdout.strip():
        raise RuntimeError("cold run failed rc=%s: %s" % (p.returncode, p.stderr[-600:]))
    return json.loads(p.stdout.strip().splitlines()[-1])


def run_coldsched(ctx, desc):
    """Controlled pre-emption during a call's *first* use of the library in a process (locale data, lazily imported search
    module, lazily built tables): one fresh interpreter per schedule."""
    refs = desc["refs"]
    ca, cb = BY[desc["a"]], BY[desc["b"]]
    na, nb = desc["a"], desc["b"]
    try:
        rec = cold_job({"mode": "record", "a": ca})
    except Exception as e:
        ctx.inconclusive.append("cold record run failed for %s: %r" % (na, e))
        return
    if not C.same_outcome(rec["A"], ref_for(refs, ca)):
        ctx.violation({"pair": [na, nb], "kind": "sequential"}, {"A": rec["A"]}, {"A": ref_for(refs, ca)},
                      "sequential-differs-from-fresh-process", {"pair": "%s|%s" % (na, nb)})
        return
    rnd = rng(ctx.seed, "C20cold", desc["i"])
    first = sorted(rec["first"], key=lambda t: t[2])
    # every distinct line A executes while NOT holding the library's lock (there another call really overlaps with it), the
    # loader / settings files, and a seeded sample of the lines executed under the lock (where B can only wait)
    outside = [k for f, ln, k, held in first if not held]
    must = [k for f, ln, k, held in first if held and f in COLD_FILES]
    rest = [k for f, ln, k, held in first if held and f not in COLD_FILES]
    ctx.count("cold_lines_outside_lock:%s" % na, len(outside)) if desc["slice"] == 0 else None
    if ctx.tier == "quick":
        must = sorted(rnd.sample(must, min(len(must), 10)))
        rest = sorted(rnd.sample(rest, min(len(rest), 14)))
    ks = sorted(set(outside + must + rest))[desc["slice"]::desc["nslices"]]
    ctx.count("cold_sched_lines_in_A:%s" % na, rec["L"]) if desc["slice"] == 0 else None
    for k in ks:
        try:
            r = cold_job({"mode": "schedule", "a": ca, "b": cb, "k": k})
        except Exception as e:
            ctx.inconclusive.append("cold schedule failed: pair %s|%s k=%d: %r" % (na, nb, k, e))
            return
        if r["hung"]:
            ctx.inconclusive.append("cold schedule hung: pair %s|%s k=%d" % (na, nb, k))
            return
        if not r["fired"]:
            ctx.count("cold_schedules_not_realised")
            continue
        ctx.ran()
        ctx.count("cold_schedules_realised")
        if r["blocked"]:
            ctx.count("cold_schedules_B_blocked")
        ok = {"A": C.same_outcome(r["A"], ref_for(refs, ca)), "B": C.same_outcome(r["B"], ref_for(refs, cb)),
              "after_A": C.same_outcome(r["after_A"], ref_for(refs, ca)), "after_B": C.same_outcome(r["after_B"], ref_for(refs, cb))}
        if not all(ok.values()):
            ctx.violation({"pair": [na, nb], "k": k, "preempted_at": r["loc"], "A": ca, "B": cb, "kind": "cold"},
                          {x: r[x] for x in ok}, {"A": ref_for(refs, ca), "B": ref_for(refs, cb)}, "concurrent-divergence",
                          {"pair": "%s|%s" % (na, nb), "who": ",".join(x for x, v in ok.items() if not v),
                           "file": r["loc"][0] if r["loc"] else None, "exc": None, "cold": True})
        else:
            ctx.nontrivial("coldsched", na, nb, k)


def run_shard(ctx, desc):
    if desc["part"] == "coldsched":
        run_coldsched(ctx, desc)
        return
    import dateparser  # noqa
    import dateparser.search  # noqa
    from dateparser.calendars.jalali import JalaliCalendar  # noqa
    import functools
    from convertdate import persian

    if not hasattr(persian.equinox_jd, "cache_info"):
        persian.equinox_jd = functools.lru_cache(None)(persian.equinox_jd)
    ac = AnchorCounter(ANCHORS).start()
    try:
        if desc["part"] == "pair":
            run_pair(ctx, desc)
        elif desc["part"] == "cold":
            run_cold(ctx, desc)
        else:
            run_stress(ctx, desc)
    finally:
        ac.stop()
    for k, v in ac.counts.items():
        ctx.count("anchor:" + k, v)


def finalize(merged, tier, seed):
    c = merged["counters"]
    inc = []
    if c.get("schedules_realised", 0) < 3000:
        inc.append("only %d schedules realised" % c.get("schedules_realised", 0))
    if c.get("stress_calls", 0) < 2000:
        inc.append("stress part ran only %d calls" % c.get("stress_calls", 0))
    if c.get("cold_start_calls", 0) < 150:
        inc.append("cold-start part ran only %d calls" % c.get("cold_start_calls", 0))
    return {"inconclusive": inc, "anchors_hit": {k[7:]: v for k, v in c.items() if k.startswith("anchor:")},
            "schedules_realised": c.get("schedules_realised", 0), "schedules_in_which_B_blocked": c.get("schedules_B_blocked", 0),
            "distinct_preemption_locations_summed_over_pairs": c.get("distinct_preemption_locations", 0)}


def replay_case(ctx, v):
    import dateparser  # noqa
    import dateparser.search  # noqa

    c = v["case"]
    if c.get("kind") in ("stress", "sequential"):
        raise SystemExit("stress/sequential witnesses are replayed by re-running the check")
    srv = C.ForkServer(0)
    try:
        refs = {x["name"]: srv.run([C.ref_call(x)])[0] for x in POOL}
    finally:
        srv.close()
    ca, cb = BY[c["pair"][0]], BY[c["pair"][1]]
    if c.get("kind") == "cold":
        r = cold_job({"mode": "schedule", "a": ca, "b": cb, "k": c["k"]})
        ok = {x: C.same_outcome(r[x], refs[(ca if x.endswith("A") else cb)["name"]]) for x in ("A", "B", "after_A", "after_B")}
        if r["fired"] and not all(ok.values()):
            ctx.violation(c, {x: r[x] for x in ok}, {"A": refs[ca["name"]], "B": refs[cb["name"]]}, "concurrent-divergence",
                          v.get("features"))
        return
    insts = {}
    sched = Scheduler(repo_path() + "/dateparser/")
    sched.install()
    try:
        fa = lambda: C.execute(ca, insts)  # noqa
        fb = lambda: C.execute(cb, insts)  # noqa
        for _ in range(2):
            sched.run_alone(fa)
            sched.run_alone(fb)
        r = sched.schedule(fa, fb, c["k"], kb=c.get("kb"))
    finally:
        sched.uninstall()
    if r["fired"] and not (C.same_outcome(r["A"], refs[ca["name"]]) and C.same_outcome(r["B"], refs[cb["name"]])):
        ctx.violation(c, {"A": r["A"], "B": r["B"]}, {"A": refs[ca["name"]], "B": refs[cb["name"]]}, "concurrent-divergence",
                      v.get("features"))
