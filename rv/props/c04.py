"""C04 — relative expressions are exact calendar arithmetic on the base."""
import calendar
from datetime import datetime, timedelta, timezone
from fractions import Fraction

from ..gen.common import rng, zone_pools, table_offset_of
from ..hooks import AnchorCounter
from ..monitors import PathTap
from ..oracles.calendar_arith import UNITS, period_of, shift
from ..util import iso, parse_iso

LEVEL = "exploration"
RULE = ("bases in [1800,2200] (40% month ends, leap days of 8 boundary years, midnight, uniform with us) x English "
        "phrases 'N unit(s) ago' / 'in N unit(s)' / bare 'N unit' under each PREFER_DATES_FROM, 1-3 distinct units "
        "joined by ', ' / ' ' / ' and ', N from boundary counts {0,1,2,3,11,12,13,28-31,59-61,99,100,365,366,1000,"
        "4999,5000} and uniform 0..5000, exactly representable decimals (point and comma) for second/minute/hour, "
        "word forms (now/today/yesterday/tomorrow/day before yesterday/last|next|this week|month|year/a|an|one unit), "
        "clock-time suffixes incl. the stratum where the stated time equals the base's time, RETURN_TIME_AS_PERIOD "
        "on/off; implicit base (no RELATIVE_BASE) for a (TIMEZONE, TO_TIMEZONE) grid bracketed between two harness "
        "clock reads. Oracle: own month arithmetic with day clamping + timedelta, None on overflow; period rule of the "
        "statement. non-trivial distinct = distinct (base, phrase, settings) accepted by the relative-time parser "
        "(path tap) or expected None by overflow.")
ASSUMPTIONS = ["English only (C06 carries other languages)", "decimal counts restricted to values exact in binary and in "
               "whole microseconds, so float rounding cannot be blamed on either side"]
TIMEOUT = {"quick": 600, "thorough": 3600}
ANCHORS = [("dateparser.freshness_date_parser", "FreshnessDateDataParser.get_kwargs"),
           ("dateparser.freshness_date_parser", "FreshnessDateDataParser._parse_date"),
           ("dateparser.freshness_date_parser", "FreshnessDateDataParser.parse"),
           ("dateparser.freshness_date_parser", "FreshnessDateDataParser._parse_time")]

N_CASES = {"quick": 90000, "thorough": 2400000}
COUNTS = [0, 1, 2, 3, 11, 12, 13, 28, 29, 30, 31, 59, 60, 61, 99, 100, 365, 366, 1000, 4999, 5000]
DECIMALS = ["0.5", "1.5", "2.5", "0.25", "10.75", "2,5", "0,5", "7,25",
            # fractions that begin with a zero (still exact in binary and in whole microseconds of a second)
            "1.0625", "0.0625", "3.03125", "0.015625", "2,0625", "12.03125", "1.50", "02.5"]
LEAP_YEARS = [1804, 1896, 1904, 2000, 2096, 2104, 2196, 2024]
CLOCKS = [("at 3 pm", (15, 0, 0)), ("15:30", (15, 30, 0)), ("10:05:33", (10, 5, 33)), ("12 am", (0, 0, 0)),
          ("at 12:00 pm", (12, 0, 0)), ("at 00:00", (0, 0, 0)), ("23:59:59", (23, 59, 59)), ("at 9 am", (9, 0, 0))]
TZS = ["America/New_York", "Europe/Paris", "Australia/Sydney", "Australia/Lord_Howe", "America/Sao_Paulo", "Asia/Tehran",
       "Europe/London", "Pacific/Auckland", "Asia/Kolkata", "UTC", "+0530", "EST", "America/St_Johns", "Africa/Cairo"]
WORDS = {
    "now": ([(0, "second")], -1), "today": ([(0, "day")], -1), "yesterday": ([(1, "day")], -1),
    "tomorrow": ([(1, "day")], 1), "day before yesterday": ([(2, "day")], -1),
    "day after tomorrow": ([(2, "day")], 1),
    "last week": ([(1, "week")], -1), "last month": ([(1, "month")], -1), "last year": ([(1, "year")], -1),
    "next week": ([(1, "week")], 1), "next month": ([(1, "month")], 1), "next year": ([(1, "year")], 1),
    "this week": ([(0, "week")], -1), "this month": ([(0, "month")], -1), "this year": ([(0, "year")], -1),
    "a week ago": ([(1, "week")], -1), "an hour ago": ([(1, "hour")], -1), "one month ago": ([(1, "month")], -1),
    "in a year": ([(1, "year")], 1), "a day ago": ([(1, "day")], -1), "in an hour": ([(1, "hour")], 1),
    "one decade ago": ([(1, "decade")], -1), "in one minute": ([(1, "minute")], 1), "a second ago": ([(1, "second")], -1),
}


ABBR = {"year": (["yr"], []), "month": (["mo"], []), "week": (["wk"], []), "hour": (["hr"], ["hrs"]),
        "minute": (["min"], ["mins"]), "second": (["sec"], ["secs"])}
NUMBER_WORDS = {"1": ["a", "an", "one"], "2": ["two"], "3": ["three"], "4": ["four"], "5": ["five"], "6": ["six"], "7": ["seven"],
                "8": ["eight"], "9": ["nine"], "10": ["ten"], "11": ["eleven"], "12": ["twelve"]}


def shards(tier, seed):
    k = 14
    out = [{"part": "explicit", "i": i, "n": N_CASES[tier] // k} for i in range(k)]
    out.append({"part": "implicit", "rounds": 1 if tier == "quick" else 6})
    return out


def gen_base(rnd):
    k = rnd.random()
    y = rnd.randrange(1800, 2201)
    if k < 0.4:
        m = rnd.randrange(1, 13)
        return datetime(y, m, calendar.monthrange(y, m)[1], rnd.randrange(24), rnd.randrange(60), rnd.randrange(60),
                        rnd.choice([0, 0, rnd.randrange(10 ** 6)]))
    if k < 0.5:
        return datetime(rnd.choice(LEAP_YEARS), 2, 29, rnd.randrange(24), rnd.randrange(60), rnd.randrange(60))
    if k < 0.6:
        return datetime(y, rnd.randrange(1, 13), rnd.randrange(1, 29))
    if k < 0.65:
        return rnd.choice([datetime(1800, 1, 1), datetime(2200, 12, 31, 23, 59, 59, 999999), datetime(1999, 12, 31, 23, 59, 59),
                           datetime(2000, 1, 1), datetime(1900, 2, 28), datetime(2100, 3, 1), datetime(2020, 3, 31, 15, 0, 0)])
    return datetime(y, rnd.randrange(1, 13), rnd.randrange(1, 29), rnd.randrange(24), rnd.randrange(60),
                    rnd.randrange(60), rnd.randrange(10 ** 6))


def plural(n, u):
    return u if n in (1, "1") else u + "s"


def gen_case(rnd):
    b = gen_base(rnd)
    case = {"base": iso(b), "pdf": rnd.choice(["past", "future", "current_period"]),
            "rtap": rnd.random() < 0.4, "clock": None, "word": None}
    if rnd.random() < 0.25:
        # the statement is about the wall clock of b: a TIMEZONE setting (incl. zones with DST) must not bend it
        case["tz"] = rnd.choice(TZS)
    k = rnd.random()
    if k < 0.12:
        case["word"] = rnd.choice(sorted(WORDS))
    else:
        nu = rnd.choice([1, 1, 1, 2, 2, 3])
        us = rnd.sample(UNITS, nu)
        parts = []
        for u in us:
            if u in ("second", "minute", "hour") and rnd.random() < 0.12:
                n = rnd.choice(DECIMALS)
                if "," in n and nu > 1:
                    # a decimal comma is only claimed in the vocabulary's own single-unit pattern
                    # '(\\d+[.,]?\\d*) unit ago'; inside a list ', ' is also the joiner
                    n = n.replace(",", ".")
            else:
                n = rnd.choice(COUNTS) if rnd.random() < 0.7 else rnd.randrange(5001)
            parts.append([str(n), u])
        case["parts"] = parts
        if rnd.random() < 0.15 and not any("," in str(n) for n, u in parts):
            # (a decimal comma is claimed only with the full unit names of the vocabulary's own pattern)
            # other listed spellings: abbreviated units (multi-letter ones of the English data) and worded counts
            # ('a', 'an', 'one' ... 'twelve'), alone or mixed with digits in one phrase
            sp = []
            for n, u in parts:
                un = plural(n, u)
                if u in ABBR and rnd.random() < 0.6:
                    un = rnd.choice(ABBR[u][1] if n not in (1, "1") and ABBR[u][1] else ABBR[u][0])
                nn = n
                if n in NUMBER_WORDS and rnd.random() < 0.6:
                    nn = rnd.choice(NUMBER_WORDS[n])
                    if nn in ("a", "an"):
                        nn = "an" if un[0] in "aeiou" or un.startswith("h") else "a"
                sp.append("%s %s" % (nn, un))
            case["spelled"] = sp
        case["form"] = rnd.choice(["ago", "in", "ago", "in", "bare"])
        case["joiner"] = rnd.choice([", ", " ", " and "])
        if case["form"] == "bare":
            case["parts"] = [[n.replace(",", "."), u] for n, u in parts]
    has_comma = any("," in n for n, u in case.get("parts") or [])
    if rnd.random() < 0.25 and not has_comma:
        ci = rnd.randrange(len(CLOCKS))
        case["clock"] = ci
        if rnd.random() < 0.3:
            # coincidence stratum: the stated time is the base's own time of day
            h, m, s = CLOCKS[ci][1]
            case["base"] = iso(b.replace(hour=h, minute=m, second=s, microsecond=0))
    return case


def phrase_of(case):
    if case["word"]:
        body, (parts, sign) = case["word"], WORDS[case["word"]]
        parts = [(n, u) for n, u in parts]
    else:
        parts = [(n, u) for n, u in case["parts"]]
        body = case["joiner"].join(case.get("spelled") or ["%s %s" % (n, plural(n, u)) for n, u in parts])
        if case["form"] == "ago":
            body, sign = body + " ago", -1
        elif case["form"] == "in":
            body, sign = "in " + body, 1
        else:
            sign = 1 if case["pdf"] == "future" else -1
    if case["clock"] is not None:
        body = body + " " + CLOCKS[case["clock"]][0]
    return body, parts, sign


def expected_of(case):
    b = parse_iso(case["base"])
    phrase, parts, sign = phrase_of(case)
    fparts = [(Fraction(str(n).replace(",", ".")), u) for n, u in parts]
    e = shift(b, fparts, sign)
    units = [u for n, u in parts]
    if e is None:
        return phrase, None, None
    if case["clock"] is not None:
        h, m, s = CLOCKS[case["clock"]][1]
        e = e.replace(hour=h, minute=m, second=s, microsecond=0)
    return phrase, e, period_of(units, case["clock"] is not None, case["rtap"])


_PARSERS = {}
_KEPT = []      # long-lived parsers: (parser, case) re-asked later; a parser configured with base b must keep using b


def revisit(ctx):
    """Ask a parser created a while ago (and left alone since) the same phrase again."""
    if len(_KEPT) < 30:
        return
    p, case = _KEPT.pop(0)
    phrase, exp, exp_period = expected_of(case)
    if exp is None:
        return
    try:
        dd = p.get_date_data(phrase)
        got, got_period = dd["date_obj"], dd["period"]
    except Exception as e:
        got, got_period = e, None
    ctx.ran()
    if got != exp or got_period != exp_period:
        ctx.violation(dict(case, phrase=phrase, revisit=True), {"date": got, "period": got_period},
                      {"date": exp, "period": exp_period}, "relative-arithmetic:long-lived-parser",
                      {"form": case.get("form") or "word", "revisit": True})
    else:
        ctx.count("revisited_long_lived_parsers_ok")


def check_case(ctx, case):
    from dateparser.date import DateDataParser

    ctx.remember(check_case, case)
    phrase, exp, exp_period = expected_of(case)
    st = {"RELATIVE_BASE": parse_iso(case["base"]), "PREFER_DATES_FROM": case["pdf"]}
    if case["rtap"]:
        st["RETURN_TIME_AS_PERIOD"] = True
    if case.get("tz"):
        st["TIMEZONE"] = case["tz"]
    PathTap.reset()
    try:
        parser_obj = DateDataParser(languages=["en"], settings=st)
        dd = parser_obj.get_date_data(phrase)
        got, got_period = dd["date_obj"], dd["period"] if dd["date_obj"] is not None else None
        if ctx.evaluations % 7 == 0:
            _KEPT.append((parser_obj, dict(case)))
            revisit(ctx)
    except Exception as e:
        got, got_period = e, None
    path = PathTap.accepted("relative-time")
    ctx.ran()
    units = sorted(set(u for n, u in (case.get("parts") or WORDS.get(case["word"], ([], 0))[0])))
    feats = {"form": case.get("form") or "word", "units": units, "clock": case["clock"] is not None,
             "rtap": case["rtap"], "tz": case.get("tz"), "decimal": any(("." in str(n) or "," in str(n)) for n, u in case.get("parts") or []),
             "path": path,
             "coincidence": bool(case["clock"] is not None and exp is not None
                                 and parse_iso(case["base"]).time().replace(microsecond=0) == exp.time()
                                 and parse_iso(case["base"]).microsecond == 0)}
    cj = dict(case, phrase=phrase)
    if exp is None:
        if case.get("form") == "bare":
            # the statement claims None-on-overflow for 'n unit ago' / 'in n unit'; a bare
            # 'N years' that cannot be a relative date may legitimately be read by another parser
            ctx.count("bare_overflow_unasserted")
            return
        if got is not None:
            ctx.violation(cj, got, None, "relative-overflow-not-none", feats)
        else:
            ctx.count("overflow_none_ok")
            ctx.nontrivial("ovf", case["base"], phrase, case["pdf"])
        return
    if got != exp:
        ctx.violation(cj, got, exp, "relative-arithmetic", feats)
        return
    if got_period != exp_period:
        ctx.violation(cj, got_period, exp_period, "relative-period", feats)
        return
    if path != "relative-time":
        ctx.count("off_path:%s" % path)
        return
    ctx.count("on_path:relative-time")
    ctx.nontrivial(case["base"], phrase, case["pdf"], case["rtap"], case.get("tz"))
    if case.get("tz"):
        ctx.count("with_TIMEZONE_setting")
    ctx.sample({"base": case["base"], "phrase": phrase, "settings": {k: v for k, v in st.items() if k != "RELATIVE_BASE"},
                "result": iso(got), "period": got_period}, limit=3)


def run_shard(ctx, desc):
    import dateparser  # noqa

    PathTap.install()
    ac = AnchorCounter(ANCHORS).start()
    try:
        if desc["part"] == "explicit":
            rnd = rng(ctx.seed, "C04", desc["i"])
            # fixed boundary stratum (independent of the seed), spread over shards
            fixed = fixed_cases()
            for c in fixed[desc["i"]::14]:
                check_case(ctx, c)
            for _ in range(desc["n"]):
                check_case(ctx, gen_case(rnd))
        else:
            run_implicit(ctx, desc)
        ctx.reask()
    finally:
        ac.stop()
    for k, v in ac.counts.items():
        ctx.count("anchor:" + k, v)


def fixed_cases():
    out = []
    for tz, b in (("America/New_York", datetime(2021, 3, 13, 12, 0)), ("America/New_York", datetime(2021, 11, 6, 23, 30)),
                  ("Europe/Paris", datetime(2020, 2, 29, 23, 30)), ("Australia/Sydney", datetime(2022, 1, 31, 8, 15)),
                  ("Australia/Lord_Howe", datetime(2021, 4, 3, 12, 0)), ("Europe/London", datetime(2021, 3, 27, 1, 30))):
        for parts, form in (([["1", "day"]], "in"), ([["1", "month"]], "in"), ([["36", "hour"]], "in"), ([["1", "week"]], "ago"),
                            ([["1", "year"], ["3", "month"]], "in"), ([["6", "month"]], "ago"), ([["2", "day"]], "ago")):
            out.append({"base": iso(b), "pdf": "current_period", "rtap": False, "clock": None, "word": None, "tz": tz,
                        "parts": parts, "form": form, "joiner": ", "})
    bases = [datetime(2020, 3, 31, 15, 0, 0), datetime(2020, 2, 29, 23, 59, 59), datetime(2019, 12, 31, 23, 59, 59, 999999),
             datetime(2021, 1, 31), datetime(1900, 3, 31, 12, 0), datetime(2000, 2, 29, 0, 0, 0)]
    for b in bases:
        for w in sorted(WORDS):
            for pdf in ("past", "future", "current_period"):
                out.append({"base": iso(b), "pdf": pdf, "rtap": False, "clock": None, "word": w})
        for u in UNITS:
            for n in COUNTS:
                for form in ("ago", "in"):
                    out.append({"base": iso(b), "pdf": "current_period", "rtap": False, "clock": None, "word": None,
                                "parts": [[str(n), u]], "form": form, "joiner": " "})
        for ci in range(len(CLOCKS)):
            h, m, s = CLOCKS[ci][1]
            for w in ("yesterday", "tomorrow", "2 days ago"):
                for rtap in (True, False):
                    c = {"base": iso(b.replace(hour=h, minute=m, second=s, microsecond=0)), "pdf": "past", "rtap": rtap,
                         "clock": ci, "word": w if w in WORDS else None}
                    if w not in WORDS:
                        c.update(parts=[["2", "day"]], form="ago", joiner=" ")
                    out.append(c)
    return out


# ------------------------------------------------------------------ implicit base
GRID = ["UTC", "America/New_York", "Asia/Kolkata", "Australia/Lord_Howe", "Pacific/Kiritimati", "Europe/London",
        "Asia/Kathmandu", "America/St_Johns", "PST", "+0530", "UTC-09:30", "UTC+14:00", "local"]
IMPLICIT_PHRASES = [("now", timedelta(0)), ("3 hours ago", -timedelta(hours=3)), ("in 90 minutes", timedelta(minutes=90)),
                    ("1 hour ago", -timedelta(hours=1)), ("in 45 seconds", timedelta(seconds=45)),
                    ("in 2 hours 30 minutes", timedelta(hours=2, minutes=30))]


def zone_readings(zone):
    """Candidate tzinfo readings of a zone *setting* (see DESIGN: dual names)."""
    import pytz
    import tzlocal

    if zone == "local":
        return [tzlocal.get_localzone()]
    out = []
    try:
        out.append(pytz.timezone(zone))
    except Exception:
        pass
    off = table_offset_of(zone)
    if off is not None:
        out.append(timezone(off))
    return out


def stable(tzs, now_utc):
    for tz in tzs:
        offs = {(now_utc + timedelta(hours=h)).astimezone(tz).utcoffset() for h in (-6, -3, 0, 3, 6)}
        if len(offs) != 1:
            return False
    return True


def run_implicit(ctx, desc):
    import dateparser

    UTC = timezone.utc
    for rnd_i in range(desc["rounds"]):
        for A in GRID:
            for B in [None] + GRID[:-1]:
                zone = B or A
                tzs = zone_readings(zone)
                if not tzs:
                    ctx.count("implicit:zone-unresolvable")
                    continue
                if not stable(tzs, datetime.now(UTC)):
                    ctx.count("implicit:skipped-near-transition")
                    continue
                for phrase, delta in IMPLICIT_PHRASES:
                    st = {"TIMEZONE": A}
                    if B:
                        st["TO_TIMEZONE"] = B
                    PathTap.reset()
                    t0 = datetime.now(UTC)
                    try:
                        r = dateparser.parse(phrase, languages=["en"], settings=st)
                    except Exception as e:
                        r = e
                    t1 = datetime.now(UTC)
                    ctx.ran()
                    cj = {"kind": "implicit", "phrase": phrase, "settings": st}
                    feats = {"form": "implicit", "TIMEZONE": A, "TO_TIMEZONE": B}
                    if not isinstance(r, datetime) or r.tzinfo is not None:
                        ctx.violation(cj, r, "naive datetime = now+delta in %s" % zone, "implicit-base", feats)
                        continue
                    ok = False
                    for tz in tzs:
                        inst = r.replace(tzinfo=tz).astimezone(UTC) if not hasattr(tz, "localize") else tz.localize(r).astimezone(UTC)
                        if t0 <= inst - delta <= t1:
                            ok = True
                    if not ok:
                        ctx.violation(cj, r, {"between": [iso(t0 + delta), iso(t1 + delta)], "zone": zone}, "implicit-base", feats)
                        continue
                    if PathTap.accepted("relative-time") == "relative-time":
                        ctx.count("implicit:ok")
                        ctx.nontrivial("implicit", A, B, phrase)
    ctx.sample({"implicit_grid": GRID, "phrases": [p for p, _ in IMPLICIT_PHRASES]})


def finalize(merged, tier, seed):
    c = merged["counters"]
    inc = []
    if c.get("on_path:relative-time", 0) < 5000:
        inc.append("relative-time path reached only %d times" % c.get("on_path:relative-time", 0))
    if c.get("implicit:ok", 0) < 200:
        inc.append("implicit-base bracket decided only %d cases" % c.get("implicit:ok", 0))
    if c.get("overflow_none_ok", 0) < 20 and not c.get("violation:relative-overflow-not-none"):
        inc.append("overflow stratum not reached")
    return {"inconclusive": inc, "anchors_hit": {k[7:]: v for k, v in c.items() if k.startswith("anchor:")}}


def replay_case(ctx, v):
    PathTap.install()
    c = v["case"]
    if c.get("kind") == "implicit":
        raise SystemExit("implicit-base cases depend on the wall clock; re-run the check")
    c = {k: c[k] for k in c if k != "phrase"}
    check_case(ctx, c)
