"""C19 — import survives a missing, empty or truncated timezone cache (fault enumeration)."""
import hashlib
import io
import os
import pickle
import pickletools
import shutil
import subprocess
import sys
import tempfile

from ..gen.common import rng
from ..util import repo_path

LEVEL = "fault_enumeration"
RULE = ("[+ fault sequences: a repairing process killed right before the rename or half-way through the write, then the next import] fault = state of the on-disk cache before loading: missing, every prefix length 0..N-1 of the shipped "
        "file (thorough: all; quick: first/last 64 bytes, every pickle-opcode boundary kind and a mid-opcode cut, "
        "the boundaries of the four tuple members, 300 seeded random lengths), and unreadable contents (random "
        "bytes, zeros, pickles of the wrong shape, pickle naming a missing class). Drivers: (a) the real "
        "_load_offsets() on a temp file, then a second load of the file it left; (b) real `import dateparser` of a "
        "scratch package copy in sub-processes, twice; (c) concurrent first imports racing on a missing cache. "
        "Oracle: no exception, table digest == digest of the intact cache, file left behind unpickles to a 4-tuple "
        "with that digest. non-trivial distinct = distinct damaged states (the full/intact state is trivial).")
EXHAUSTIVE = {"quick": False, "thorough": True}
ASSUMPTIONS = ["bit flips that yield a loadable-but-different pickle are not injected (undetectable without a checksum)",
               "atomicity of the rewrite is observed (audit hook) and reported, not required"]
TIMEOUT = {"quick": 600, "thorough": 7200}


def shipped_bytes():
    with open(os.path.join(repo_path(), "dateparser", "data", "dateparser_tz_cache.pkl"), "rb") as f:
        return f.read()


def digest_of(tz_offsets, re_cs, re_ci):
    h = hashlib.sha256()
    for name, info in tz_offsets:
        h.update(repr((name, info["regex"].pattern, int(info["regex"].flags),
                       info["offset"].total_seconds())).encode())
    h.update(repr((re_cs.pattern, int(re_cs.flags), re_ci.pattern, int(re_ci.flags))).encode())
    return h.hexdigest()


def interesting_prefixes(data, rnd, n_random):
    N = len(data)
    pts = set(range(0, 64)) | set(range(N - 64, N))
    seen_ops = set()
    prev = None
    for op, arg, pos in pickletools.genops(io.BytesIO(data)):
        if op.name not in seen_ops:
            seen_ops.add(op.name)
            pts.add(pos)
            pts.add(pos + 1)
            if prev is not None:
                pts.add((prev + pos) // 2)
        prev = pos
    # frame structure of protocol >= 4 pickles: a cut exactly between two frames ends the stream where the unpickler
    # expects a new opcode (EOFError), a cut inside a frame header or body ends it mid-read (UnpicklingError)
    for op, arg, pos in pickletools.genops(io.BytesIO(data)):
        if op.name == "FRAME":
            end = pos + 9 + int(arg)
            for q in (pos - 1, pos, pos + 1, pos + 5, pos + 9, pos + 10, end - 1, end, end + 1):
                pts.add(q)
    # boundaries between the four tuple members: positions where the stack depth is 1..4 at top level
    try:
        depth_marks = []
        for op, arg, pos in pickletools.genops(io.BytesIO(data)):
            if op.name in ("TUPLE", "TUPLE1", "TUPLE2", "TUPLE3", "STOP", "MARK", "EMPTY_LIST", "MEMOIZE"):
                depth_marks.append(pos)
        for p in depth_marks[:8] + depth_marks[-8:]:
            pts.add(p)
    except Exception:
        pass
    for _ in range(n_random):
        pts.add(rnd.randrange(N))
    return sorted(p for p in pts if 0 <= p < N)


def garbage_states(data, rnd):
    N = len(data)
    out = [
        ("random-bytes", bytes(rnd.getrandbits(8) for _ in range(4096))),
        ("zeros", b"\0" * 4096),
        ("pickle-int", pickle.dumps(5, protocol=5)),
        ("pickle-3tuple", pickle.dumps((1, 2, 3), protocol=5)),
        ("pickle-5tuple", pickle.dumps((1, 2, 3, 4, 5), protocol=5)),
        ("pickle-dict", pickle.dumps({"a": 1}, protocol=5)),
        ("pickle-none", pickle.dumps(None, protocol=5)),
        ("pickle-str", pickle.dumps("abc", protocol=5)),
        ("pickle-missing-class", b"cno_such_module_rv\nNoClass\n."),
        ("pickle-missing-attr", b"cos\nno_such_attr_rv\n."),
        ("text", b"not a pickle at all\n"),
        ("tail-only", data[N // 2:]),
    ]
    return out


def shards(tier, seed):
    data = shipped_bytes()
    N = len(data)
    out = []
    if tier == "thorough":
        k = 64
        for i in range(k):
            out.append({"part": "func", "mode": "all", "i": i, "k": k})
    else:
        k = 14
        for i in range(k):
            out.append({"part": "func", "mode": "quick", "i": i, "k": k})
    out.append({"part": "func_special"})
    out.append({"part": "import", "n": 40 if tier == "quick" else 400, "i": 0, "k": 1})
    out.append({"part": "concurrent", "rounds": 3 if tier == "quick" else 12})
    return out


# ------------------------------------------------------------------ function level
class Audit:
    def __init__(self):
        self.events = []
        self.path = None
        sys.addaudithook(self._hook)

    def _hook(self, event, args):
        if self.path is None:
            return
        try:
            if event == "open":
                p = os.fspath(args[0]) if isinstance(args[0], (str, bytes, os.PathLike)) else None
                if p and os.path.dirname(str(p)) == os.path.dirname(self.path):
                    self.events.append(("open", os.path.basename(str(p)), str(args[1])))
            elif event == "os.rename":
                if str(args[1]) == self.path:
                    self.events.append(("rename-onto-cache", os.path.basename(str(args[0])), ""))
        except Exception:
            pass


def load_with_state(tp, path, content, current_hash=None):
    """Put the cache file in the given state, run the real loader, return (exc, digest)."""
    if content is None:
        if os.path.exists(path):
            os.remove(path)
    else:
        with open(path, "wb") as f:
            f.write(content)
    tp._tz_offsets = tp._search_regex = tp._search_regex_ignorecase = None
    try:
        tp._load_offsets(path, current_hash)
    except BaseException as e:
        return e, None
    try:
        return None, digest_of(tp._tz_offsets, tp._search_regex, tp._search_regex_ignorecase)
    except Exception as e:
        return None, "undigestable:%s" % type(e).__name__


def what_pickle_says(content):
    if content is None:
        return "missing"
    try:
        pickle.load(io.BytesIO(content))
        return "loads"
    except Exception as e:
        return type(e).__name__


def check_state(ctx, tp, audit, intact, label, content, current_hash=None, nontrivial=True):
    d = tempfile.mkdtemp(prefix="rv-c19-")
    path = os.path.join(d, "dateparser_tz_cache.pkl")
    audit.path = path
    audit.events = []
    try:
        ctx.ran()
        ctx.count("pickle_says:%s" % what_pickle_says(content))
        exc, dg = load_with_state(tp, path, content, current_hash)
        case = {"state": label, "size": None if content is None else len(content), "current_hash": current_hash}
        feats = {"state_kind": label.split(":")[0], "hash_mode": current_hash is not None}
        if exc is not None:
            ctx.violation(case, exc, "loads (rebuilding if needed)", "load-raised:%s" % type(exc).__name__, feats)
            return
        if dg != intact:
            ctx.violation(case, dg, intact, "table-differs-after-load", feats)
            return
        wrote = [e for e in audit.events if e[0] == "open" and "w" in e[2]]
        renamed = [e for e in audit.events if e[0] == "rename-onto-cache"]
        if wrote:
            ctx.count("rewrite:" + ("atomic(rename)" if renamed else "in-place"))
        # what was left behind must be complete: loadable by the library and by pickle
        try:
            with open(path, "rb") as f:
                left = pickle.load(f)
            ok_left = isinstance(left, tuple) and len(left) == 4 and digest_of(left[1], left[2], left[3]) == intact
        except Exception as e:
            ok_left = False
            left = e
        if not ok_left:
            ctx.violation(case, left if isinstance(left, Exception) else "file left is not an intact 4-tuple",
                          "complete cache on disk", "damage-persists-on-disk", feats)
            return
        stray = [n for n in os.listdir(d) if n != "dateparser_tz_cache.pkl"]
        if stray:
            ctx.count("stray_temp_files_left", len(stray))
        exc2, dg2 = load_with_state(tp, path, open(path, "rb").read(), current_hash)
        if exc2 is not None or dg2 != intact:
            ctx.violation(case, exc2 or dg2, intact, "second-load-fails", feats)
            return
        ctx.count("survived:%s" % label.split(":")[0])
        if nontrivial:
            ctx.nontrivial(label, current_hash)
    finally:
        audit.path = None
        shutil.rmtree(d, ignore_errors=True)


def run_shard(ctx, desc):
    part = desc["part"]
    if part in ("func", "func_special"):
        import dateparser.timezone_parser as tp

        audit = Audit()
        intact = digest_of(tp._tz_offsets, tp._search_regex, tp._search_regex_ignorecase)
        data = shipped_bytes()
        if part == "func":
            if desc["mode"] == "all":
                pts = list(range(len(data)))
            else:
                pts = interesting_prefixes(data, rng(ctx.seed, "C19", 0), 300)
            mine = pts[desc["i"]::desc["k"]]
            for p in mine:
                check_state(ctx, tp, audit, intact, "prefix:%d" % p, data[:p])
            ctx.sample({"prefix_lengths": mine[:12], "of": len(data)})
        else:
            import zlib
            from dateparser.timezones import timezone_info_list

            rnd = rng(ctx.seed, "C19g", 0)
            check_state(ctx, tp, audit, intact, "missing", None)
            check_state(ctx, tp, audit, intact, "full", data, nontrivial=False)
            for name, content in garbage_states(data, rnd):
                check_state(ctx, tp, audit, intact, "garbage:" + name, content)
            h = zlib.crc32(str(timezone_info_list).encode("utf-8"))
            # BUILD_TZ_CACHE path: hash given
            check_state(ctx, tp, audit, intact, "missing", None, current_hash=h)
            check_state(ctx, tp, audit, intact, "stale-hash-full", data, current_hash=h)
            for p in (0, 1, 100, len(data) // 2, len(data) - 1):
                check_state(ctx, tp, audit, intact, "prefix:%d" % p, data[:p], current_hash=h)
            ctx.sample({"garbage_states": [g[0] for g in garbage_states(data, rnd)]})
    elif part == "import":
        run_import(ctx, desc)
    else:
        run_concurrent(ctx, desc)


# ------------------------------------------------------------------ import level
CHILD = ("import sys, hashlib; sys.path.insert(0, sys.argv[1]); import dateparser, dateparser.timezone_parser as tp\n"
         "assert dateparser.__file__.startswith(sys.argv[1]), dateparser.__file__\n"
         "h = hashlib.sha256()\n"
         "for name, info in tp._tz_offsets:\n"
         "    h.update(repr((name, info['regex'].pattern, int(info['regex'].flags), info['offset'].total_seconds())).encode())\n"
         "h.update(repr((tp._search_regex.pattern, int(tp._search_regex.flags), tp._search_regex_ignorecase.pattern, int(tp._search_regex_ignorecase.flags))).encode())\n"
         "r = dateparser.parse('2015-05-12 10:30 CEST')\n"
         "print('DIGEST', h.hexdigest(), r.utcoffset().total_seconds())\n")


# a process that dies while it repairs the cache: either right before the finished file is moved into place (audit event
# of os.replace/os.rename onto the cache) or in the middle of writing it (pickle.dump writes half of the bytes, then the
# process exits).  Whatever it leaves behind (a temporary file under whatever name the implementation uses, a partial cache)
# is the fault state the next import meets.
CRASH_PRELUDE = ("import os, sys, pickle\n"
                 "_mode, _cache = sys.argv[2], sys.argv[3]\n"
                 "if _mode == 'at-rename':\n"
                 "    def _hook(ev, args):\n"
                 "        if ev == 'os.rename' and os.path.abspath(str(args[1])) == _cache:\n"
                 "            os._exit(17)\n"
                 "    sys.addaudithook(_hook)\n"
                 "else:\n"
                 "    _dump = pickle.dump\n"
                 "    def _half(obj, f, *a, **k):\n"
                 "        b = pickle.dumps(obj, *a, **k)\n"
                 "        f.write(b[:len(b) // 2]); f.flush(); os._exit(17)\n"
                 "    pickle.dump = _half\n")


def child_import(scratch, timeout=120, crash=None, cache=None):
    env = dict(os.environ)
    env["PYTHONPATH"] = ""
    env["PYTHONDONTWRITEBYTECODE"] = "1"
    env.pop("BUILD_TZ_CACHE", None)
    if crash:
        try:
            p = subprocess.run([sys.executable, "-c", CRASH_PRELUDE + CHILD, scratch, crash, os.path.abspath(cache)],
                               capture_output=True, text=True, timeout=timeout, env=env, cwd=scratch)
        except subprocess.TimeoutExpired:
            return "timeout", None
        return ("crashed" if p.returncode == 17 else "rc=%d" % p.returncode), None
    try:
        p = subprocess.run([sys.executable, "-c", CHILD, scratch], capture_output=True, text=True,
                           timeout=timeout, env=env, cwd=scratch)
    except subprocess.TimeoutExpired:
        return "timeout", None
    if p.returncode != 0:
        lines = p.stderr.strip().splitlines()
        return "raised: " + (lines[-1] if lines else "rc=%d" % p.returncode)[:300], None
    for line in p.stdout.splitlines():
        if line.startswith("DIGEST"):
            return None, line.split()[1:]
    return "no digest printed", None


def make_scratch():
    scratch = tempfile.mkdtemp(prefix="rv-c19i-")
    rp = repo_path()
    for d in ("dateparser", "dateparser_data"):
        shutil.copytree(os.path.join(rp, d), os.path.join(scratch, d),
                        ignore=shutil.ignore_patterns("__pycache__"))
    return scratch, os.path.join(scratch, "dateparser", "data", "dateparser_tz_cache.pkl")


def run_import(ctx, desc):
    data = shipped_bytes()
    rnd = rng(ctx.seed, "C19i", 0)
    scratch, cache = make_scratch()
    try:
        err, intact = child_import(scratch)
        if err:
            ctx.inconclusive.append("import of the intact scratch copy failed: %s" % err)
            return
        states = [("missing", None), ("prefix:0", b""), ("prefix:1", data[:1]),
                  ("prefix:%d" % (len(data) - 1), data[:-1]), ("prefix:%d" % (len(data) // 2), data[:len(data) // 2])]
        states += [("garbage:" + n, c) for n, c in garbage_states(data, rnd)[:6]]
        pts = interesting_prefixes(data, rnd, 50)
        while len(states) < desc["n"]:
            p = rnd.choice(pts) if rnd.random() < 0.5 else rnd.randrange(len(data))
            states.append(("prefix:%d" % p, data[:p]))
        # crashed repairs first (fault sequences: damaged cache -> a repairing process dies -> next import)
        crash_states = [(lab, cont, mode) for lab, cont in states[:3] for mode in ("at-rename", "mid-dump")]
        for label, content, crash in [(a, b, None) for a, b in states] + crash_states:
            ctx.ran()
            datadir = os.path.dirname(cache)
            for fn in os.listdir(datadir):
                if fn.startswith(os.path.basename(cache)) and fn != os.path.basename(cache):
                    os.remove(os.path.join(datadir, fn))      # leftovers of the previous sequence
            if content is None:
                if os.path.exists(cache):
                    os.remove(cache)
            else:
                with open(cache, "wb") as f:
                    f.write(content)
            case = {"state": label, "driver": "import"}
            feats = {"state_kind": label.split(":")[0], "driver": "import"}
            if crash:
                how, _ = child_import(scratch, crash=crash, cache=cache)
                leftovers = sorted(fn for fn in os.listdir(datadir) if fn.startswith(os.path.basename(cache)))
                case = {"state": label, "driver": "import", "then": "repairing process killed %s (%s)" % (crash, how),
                        "files_left": leftovers}
                feats = {"state_kind": label.split(":")[0], "driver": "import-after-crashed-repair", "crash": crash}
                ctx.count("crashed_repairs:%s:%s" % (crash, how))
                label = "crash:" + label
            err, dg = child_import(scratch)
            if err:
                ctx.violation(case, err, "import succeeds", "import-raised", feats)
                continue
            if dg != intact:
                ctx.violation(case, dg, intact, "table-differs-after-import", feats)
                continue
            try:
                with open(cache, "rb") as f:
                    raw = f.read()
                # unpickling needs the scratch package's classes only via regex; plain pickle suffices
                left = pickle.loads(raw)
                ok = isinstance(left, tuple) and len(left) == 4
            except Exception as e:
                ok, left = False, e
            if not ok:
                ctx.violation(case, left if isinstance(left, Exception) else "not a 4-tuple", "complete cache on disk",
                              "damage-persists-on-disk", feats)
                continue
            err2, dg2 = child_import(scratch)
            if err2 or dg2 != intact:
                ctx.violation(case, err2 or dg2, intact, "second-import-fails", feats)
                continue
            ctx.count("import_survived:%s" % label.split(":")[0])
            ctx.nontrivial("import", label)
        ctx.sample({"import_states": [s[0] for s in states[:10]]})
    finally:
        shutil.rmtree(scratch, ignore_errors=True)


def run_concurrent(ctx, desc):
    """Several first imports racing on a missing cache: each must succeed with the intact table."""
    scratch, cache = make_scratch()
    try:
        err, intact = child_import(scratch)
        if err:
            ctx.inconclusive.append("import of the intact scratch copy failed: %s" % err)
            return
        env = dict(os.environ)
        env["PYTHONPATH"] = ""
        env["PYTHONDONTWRITEBYTECODE"] = "1"
        for rnd_i in range(desc["rounds"]):
            if os.path.exists(cache):
                os.remove(cache)
            procs = [subprocess.Popen([sys.executable, "-c", CHILD, scratch], stdout=subprocess.PIPE,
                                      stderr=subprocess.PIPE, text=True, env=env, cwd=scratch)
                     for _ in range(12)]
            for pi, p in enumerate(procs):
                try:
                    out, errs = p.communicate(timeout=180)
                except subprocess.TimeoutExpired:
                    p.kill()
                    ctx.inconclusive.append("concurrent import child timed out")
                    continue
                ctx.ran()
                case = {"state": "missing", "driver": "concurrent-import", "round": rnd_i, "child": pi}
                feats = {"state_kind": "concurrent", "driver": "concurrent-import"}
                dg = None
                for line in out.splitlines():
                    if line.startswith("DIGEST"):
                        dg = line.split()[1:]
                if p.returncode != 0 or dg is None:
                    lines = errs.strip().splitlines()
                    ctx.violation(case, (lines[-1] if lines else "rc=%s" % p.returncode)[:300], "import succeeds",
                                  "concurrent-import-raised", feats)
                elif dg != intact:
                    ctx.violation(case, dg, intact, "table-differs-after-import", feats)
                else:
                    ctx.count("concurrent_import_ok")
                    ctx.nontrivial("concurrent", rnd_i, pi)
            try:
                left = pickle.loads(open(cache, "rb").read())
                ok = isinstance(left, tuple) and len(left) == 4
            except Exception as e:
                ok, left = False, e
            if not ok:
                ctx.violation({"state": "after-concurrent-imports", "round": rnd_i}, left if isinstance(left, Exception) else "not a 4-tuple",
                              "complete cache on disk", "damage-persists-on-disk",
                              {"state_kind": "concurrent", "driver": "concurrent-import"})
    finally:
        shutil.rmtree(scratch, ignore_errors=True)


def finalize(merged, tier, seed):
    c = merged["counters"]
    inc = []
    if c.get("survived:prefix", 0) + sum(v for k, v in c.items() if k.startswith("violation:")) < 100:
        inc.append("too few damaged states were driven")
    if tier == "thorough" and c.get("survived:prefix", 0) < len(shipped_bytes()) and not any(k.startswith("violation:") for k in c):
        inc.append("not every prefix was visited")
    return {"inconclusive": inc,
            "exhaustive": tier == "thorough",
            "exceptions_pickle_raises_on_the_injected_states": {k[12:]: v for k, v in c.items() if k.startswith("pickle_says:")}}


def replay_case(ctx, v):
    import dateparser.timezone_parser as tp

    c = v["case"]
    data = shipped_bytes()
    rnd = rng(v.get("seed", 0), "C19g", 0)
    label = c["state"]
    if label == "missing":
        content = None
    elif label.startswith("prefix:"):
        content = data[:int(label.split(":")[1])]
    elif label.startswith("garbage:"):
        content = dict(garbage_states(data, rnd))[label.split(":", 1)[1]]
    else:
        content = data
    if c.get("driver") in ("import", "concurrent-import"):
        scratch, cache = make_scratch()
        try:
            err, intact = child_import(scratch)
            if content is None:
                os.remove(cache)
            else:
                open(cache, "wb").write(content)
            err, dg = child_import(scratch)
            if err or dg != intact:
                ctx.violation(c, err or dg, intact, v["label"], v.get("features"))
        finally:
            shutil.rmtree(scratch, ignore_errors=True)
        return
    audit = Audit()
    # intact digest must come from the shipped cache, loaded in this fresh process at import
    intact = digest_of(tp._tz_offsets, tp._search_regex, tp._search_regex_ignorecase)
    check_state(ctx, tp, audit, intact, label, content, c.get("current_hash"))
