"""C05 — every locale's month and weekday names resolve to their meaning (vocabulary walk)."""
from datetime import datetime, timedelta

from ..hooks import AnchorCounter
from ..monitors import PathTap, TranslateTap
from ..oracles import vocab
from ..util import iso

LEVEL = "exploration"
RULE = ("complete walk of the vocabulary read as data: for each of the 205 languages every listed month and weekday name, and for "
        "each of the 299 regional locales every listed name (inherited ones included; a language and its regional locales are walked in one process), under NORMALIZE on and "
        "off; a name is asserted only when its lookup form (lower case, accent-stripped exactly when NORMALIZE is on) occurs "
        "under exactly one dictionary-feeding key of the merged locale data (merge computed by the harness). Month names: "
        "'D <name> YYYY' for D in {1,13,28} (thorough 1..28) x years {2015} (thorough 1987, 2015, 2032) must give that date; "
        "weekday names alone at reference dates on the 8th..24th (quick 3 dates covering 7 weekdays, thorough 17 x 2 months) "
        "must give the most recent such weekday within the seven days ending at the reference. non-trivial distinct = distinct "
        "(locale, key, word, NORMALIZE) asserted entries.")
EXHAUSTIVE = {"quick": True, "thorough": True}
ASSUMPTIONS = ["names are written exactly as listed (case variants are not part of the statement)",
               "names ambiguous in the data are counted and never asserted"]
TIMEOUT = {"quick": 600, "thorough": 3600}
ANCHORS = [("dateparser.languages.dictionary", "Dictionary.__init__"),
           ("dateparser.languages.dictionary", "NormalizedDictionary._normalize"),
           ("dateparser.languages.dictionary", "Dictionary._split_by_known_words"),
           ("dateparser.languages.locale", "Locale._simplify"), ("dateparser.languages.locale", "Locale._translate_numerals")]


def shards(tier, seed):
    # sharded by language: a language and all its regional locales are walked in one process, in index order,
    # so that what an earlier locale of the language leaves behind is seen by the later ones
    return [{"i": i, "k": 15} for i in range(15)]


def entries():
    """(lang, loc, key, word, inherited) for the whole vocabulary."""
    out = []
    for lang, loc in vocab.all_locales():
        info = vocab.locale_info(loc, lang)
        parent = vocab.locale_info(lang, lang) if loc != lang else None
        for key in vocab.MONTHS + vocab.WEEKDAYS:
            words = [w for w in info.get(key, []) or [] if isinstance(w, str)]
            took_inherited = False
            seen = set()
            for w in words:
                if w in seen:
                    continue
                seen.add(w)
                inherited = parent is not None and w in (parent.get(key, []) or [])
                out.append((lang, loc, key, w, inherited))
    return out


_PARSERS = {}


def parser_for(lang, loc, norm, ref):
    from dateparser.date import DateDataParser

    key = (loc, norm, ref)
    if key not in _PARSERS:
        kw = {"languages": [lang]} if loc == lang else {"locales": [loc]}
        _PARSERS[key] = DateDataParser(settings={"RELATIVE_BASE": ref, "NORMALIZE": norm}, **kw)
    return _PARSERS[key]


_SP = {}


def strict_parser_for(lang, loc, norm, ref):
    from dateparser.date import DateDataParser

    key = (lang, loc, norm, ref)
    if key not in _SP:
        kw = {"languages": [lang]} if loc == lang else {"locales": [loc]}
        _SP[key] = DateDataParser(settings={"RELATIVE_BASE": ref, "NORMALIZE": norm, "STRICT_PARSING": True}, **kw)
    return _SP[key]


def classify(loc, word, canonical, s):
    """Mechanism label from the translate tap: was the canonical English name produced at all?"""
    if not TranslateTap.available:
        return "unclassified(tap-unavailable)"   # Locale.translate was renamed/moved: the mechanism cannot be told
    evs = [e for e in TranslateTap.events() if not e[2]]
    if not evs:
        return "no-translation(not applicable to locale)"
    tr = evs[-1][3]
    toks = tr.replace(",", " ").split()
    if canonical in toks:
        return "misparsed"
    try:
        L = vocab.get_locale(loc)
        from dateparser.conf import settings as default_settings

        simp = L._simplify(word.lower(), settings=default_settings)
    except Exception:
        simp = word.lower()
    if simp != word.lower():
        return "shadowed:simplification"
    if any(ch.isdigit() for ch in word):
        return "shadowed:digits-in-name"
    return "shadowed:other-word-or-split"


def check_entry(ctx, e, norm, days, years, refs):
    lang, loc, key, word, inherited = e
    info = vocab.locale_info(loc, lang)
    mm = vocab.meaning_map(info, norm)
    form = vocab.lookup_form(word, norm)
    if mm.get(form) != {key}:
        ctx.count("ambiguous_skipped")
        return
    ent = "%s|%s|%s" % (lang, key, word)
    bad = None
    if key in vocab.MONTHS:
        mi = vocab.MONTHS.index(key) + 1
        ref = datetime(2021, 6, 16, 10, 30)
        for y in years:
            for d in days:
                s = "%d %s %d" % (d, word, y)
                PathTap.reset()
                TranslateTap.reset()
                try:
                    r = parser_for(lang, loc, norm, ref).get_date_data(s)["date_obj"]
                except Exception as ex:
                    r = ex
                ctx.ran()
                if r != datetime(y, mi, d):
                    bad = (s, r, datetime(y, mi, d), classify(loc, word, key, s))
                    break
            if bad:
                break
        if not bad:
            # a complete 'D <month> YYYY' states day, month and year: STRICT_PARSING must not change what it parses to
            # (two-digit day: in year-first locales it is first tried as a year)
            s = "13 %s 2015" % word
            try:
                r = strict_parser_for(lang, loc, norm, ref).get_date_data(s)["date_obj"]
            except Exception as ex:
                r = ex
            ctx.ran()
            ctx.count("strict_pass_checked")
            if r != datetime(2015, mi, 13):
                TranslateTap.reset()
                bad = (s, r, datetime(2015, mi, 13), "complete-date-lost-under-STRICT_PARSING")
    else:
        wi = vocab.WEEKDAYS.index(key)
        for ref in refs:
            PathTap.reset()
            TranslateTap.reset()
            try:
                r = parser_for(lang, loc, norm, ref).get_date_data(word)["date_obj"]
            except Exception as ex:
                r = ex
            ctx.ran()
            b0 = ref.replace(hour=0, minute=0, second=0, microsecond=0)
            exp = b0 - timedelta(days=(ref.weekday() - wi) % 7)
            if r != exp:
                bad = (word, r, exp, classify(loc, word, key, word))
                break
    if bad:
        s, r, exp, mech = bad
        ctx.violation({"lang": lang, "locale": loc, "key": key, "word": word, "NORMALIZE": norm, "string": s,
                       "inherited": inherited}, r, exp, "name-unresolved:" + mech,
                      {"entry": ent, "locale": loc, "key": key, "kind": "month" if key in vocab.MONTHS else "weekday"})
        return
    ctx.nontrivial(ent, loc, norm)
    ctx.count("asserted:%s" % ("month" if key in vocab.MONTHS else "weekday"))
    ctx.count("asserted_locale_specific" if loc != lang and not inherited else "asserted_language_or_inherited")
    if word and len(ctx.samples) < 3 and loc != "en":
        ctx.sample({"locale": loc, "key": key, "word": word, "NORMALIZE": norm})


def run_shard(ctx, desc):
    import dateparser  # noqa

    PathTap.install()
    TranslateTap.install()
    ac = AnchorCounter(ANCHORS).start()
    try:
        ents = entries()
        ctx.count("vocabulary_entries_total_in_shard0", len(ents) if desc["i"] == 0 else 0)
        langs_in_order = []
        for e in ents:
            if e[0] not in langs_in_order:
                langs_in_order.append(e[0])
        my_langs = set(langs_in_order[desc["i"]::desc["k"]])
        mine = [e for e in ents if e[0] in my_langs]
        if ctx.tier == "quick":
            days, years = [1, 13, 28], [2015]
            refs = [datetime(2021, 6, 10, 10, 30), datetime(2021, 6, 16, 0, 0), datetime(2021, 6, 21, 23, 59)]
        else:
            days, years = list(range(1, 29)), [1987, 2015, 2032]
            refs = [datetime(2021, m, d, 10, 30) for m in (6, 2) for d in range(8, 25)]
        for e in mine:
            for norm in (True, False):
                check_entry(ctx, e, norm, days, years, refs)
        ctx.count("entries_walked", len(mine))
    finally:
        ac.stop()
    for k, v in ac.counts.items():
        ctx.count("anchor:" + k, v)


def finalize(merged, tier, seed):
    c = merged["counters"]
    inc = []
    total = c.get("vocabulary_entries_total_in_shard0", 0)
    if c.get("entries_walked", 0) != total or total < 5000:
        inc.append("vocabulary walk incomplete: %d of %d" % (c.get("entries_walked", 0), total))
    if c.get("asserted:month", 0) < 3000 or c.get("asserted:weekday", 0) < 2000:
        inc.append("too few entries asserted (month %d, weekday %d)" % (c.get("asserted:month", 0), c.get("asserted:weekday", 0)))
    return {"inconclusive": inc, "anchors_hit": {k[7:]: v for k, v in c.items() if k.startswith("anchor:")}}


def replay_case(ctx, v):
    PathTap.install()
    TranslateTap.install()
    c = v["case"]
    e = (c["lang"], c["locale"], c["key"], c["word"], c.get("inherited", False))
    check_entry(ctx, e, c["NORMALIZE"], list(range(1, 29)), [1987, 2015, 2032],
                [datetime(2021, m, d, 10, 30) for m in (6, 2) for d in range(8, 25)])
