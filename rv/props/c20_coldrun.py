"""One cold schedule in a fresh interpreter (run as `python -m rv.props.c20_coldrun '<json>'`).

The process has imported `dateparser` and nothing else: locale data, the search module and every lazily built table are first
touched by thread A's call.  mode "record": A runs alone and the positions (k) of the first execution of each distinct
library line are printed.  mode "schedule": A is suspended when about to execute its k-th library line, B runs to completion
(or until it blocks), A resumes; afterwards both calls are made once more, one after the other (state that a half-finished
initialisation left behind stays in the process).  Outcomes go to stdout as JSON."""
import json
import sys


def main():
    job = json.loads(sys.argv[1])
    import dateparser  # noqa: F401  (imported, nothing used yet)

    from .. import calls as C
    from ..sched import Scheduler
    from ..util import repo_path

    insts = {}
    ca, cb = job["a"], job.get("b")
    fa = lambda: C.execute(ca, insts)  # noqa
    fb = lambda: C.execute(cb, insts)  # noqa
    sched = Scheduler(repo_path() + "/dateparser/")
    sched.install()
    try:
        if job["mode"] == "record":
            # own LINE callback: position k of the first execution of every distinct library line, and whether the calling
            # thread holds the library's lock there (outside the lock is where another call can really overlap)
            import threading

            from dateparser.conf import _lock

            sched.uninstall()
            mon, tool, prefix = sys.monitoring, 4, repo_path() + "/dateparser/"
            me, first, n = threading.get_ident(), {}, [0]
            owned = getattr(_lock, "_is_owned", lambda: True)

            def on_line(code, line):
                fn = code.co_filename
                if not fn.startswith(prefix):
                    return mon.DISABLE
                if threading.get_ident() != me:
                    return
                n[0] += 1
                key = (fn[len(prefix):], line)
                if key not in first and not key[0].startswith("data/date_translation_data/"):
                    first[key] = (n[0], bool(owned()))

            mon.use_tool_id(tool, "rv-coldrec")
            mon.register_callback(tool, mon.events.LINE, on_line)
            mon.set_events(tool, mon.events.LINE)
            try:
                out = fa()
            finally:
                mon.set_events(tool, 0)
                mon.register_callback(tool, mon.events.LINE, None)
                mon.free_tool_id(tool)
            print(json.dumps({"A": out, "L": n[0], "first": [[f, ln, k, held] for (f, ln), (k, held) in first.items()]}))
            return
        r = sched.schedule(fa, fb, job["k"], timeout=120)
    finally:
        sched.uninstall()
    after_b = C.execute(cb, {})
    after_a = C.execute(ca, {})
    print(json.dumps({"fired": r["fired"], "blocked": r["blocked"], "loc": r["loc"], "A": r["A"], "B": r["B"], "hung": r["hung"],
                      "after_A": after_a, "after_B": after_b}))


if __name__ == "__main__":
    main()
