"""C13 — language selection is honoured; autodetection is reproducible."""
import json
from datetime import datetime

from ..gen.common import corpus, rng
from ..hooks import AnchorCounter, bump
from ..util import iso

LEVEL = "exploration"
RULE = ("corpus strings x random language subsets (1-5 of the first 80 languages, the detected one inserted at a random "
        "position 60% of the time) x use_given_order x DEFAULT_LANGUAGES {none, ['en'], ['fr','en']}: the result must equal the "
        "first successful memoised single-language result in priority (or given) order, its locale must belong to the selection "
        "(or to DEFAULT_LANGUAGES when the selection fails), and DEFAULT_LANGUAGES must not change a result the selection "
        "produces; the same law for locales= selections (regional locales of distinct languages, both ordering rules); autodetected result re-parsed with languages=[reported]; complete walk of every valid (language, region) of "
        "language_locale_dict: languages=[L], region=R must equal locales=[L-R] on a numeric and a named date and, for the 20 regional locales that list relative phrases of their own, on "
        "strings instantiated from those, asked before and after the plain language was used with the same (locale-unique) settings: "
        "equal answers required; mixed-validity "
        "region lists (region valid for only some of the languages); every language with 2-4 regions that are not its own (incl. regions "
        "of locales that only share its prefix): nothing may be reported. non-trivial distinct = distinct (string, selection, "
        "settings) whose result was non-None, plus every (language, region) pair.")
ASSUMPTIONS = ["for the DEFAULT_LANGUAGES fallback only membership is asserted (the fallback skips the applicability test)"]
TIMEOUT = {"quick": 900, "thorough": 3600}
ANCHORS = [("dateparser.languages.loader", "LocaleDataLoader._load_data"), ("dateparser.languages.locale", "Locale.is_applicable"),
           ("dateparser.date", "DateDataParser._get_applicable_locales")]
B = datetime(2012, 11, 13, 14, 15)
TRIED = []


def install_tap():
    import dateparser.date as D

    orig = getattr(D.DateDataParser, "_get_applicable_locales", None)
    if orig is None:      # refactored away: the tap only annotates witnesses with the locales tried
        return

    def tapped(self, date_string):
        bump("tap:_get_applicable_locales")
        for loc in orig(self, date_string):
            TRIED.append(loc.shortname)
            yield loc

    D.DateDataParser._get_applicable_locales = tapped


def shards(tier, seed):
    k = 12
    out = [{"part": "compose", "i": i, "k": k} for i in range(k)]
    out += [{"part": "regions", "i": i, "k": 3} for i in range(3)]
    return out


_single = {}
_RECENT = []


def one(lang, s, extra=None):
    from dateparser.date import DateDataParser

    k = (lang, s, json.dumps(extra, sort_keys=True, default=str))
    if k not in _single:
        st = {"RELATIVE_BASE": B}
        st.update(extra or {})
        try:
            r = DateDataParser(languages=[lang], settings=st).get_date_data(s)
            _single[k] = (r["date_obj"], r["period"], r["locale"])
        except Exception as e:
            _single[k] = (e, None, None)
    return _single[k]


def languages_of(locale, language_order):
    if locale is None:
        return None
    if locale in language_order:
        return locale
    import re

    return re.split(r"-(?=[A-Z0-9]+$)", locale)[0]


def check_compose(ctx, s, det, langs, ugo, dl):
    from dateparser.data.languages_info import language_order
    from dateparser.date import DateDataParser

    st = {"RELATIVE_BASE": B}
    if dl:
        st["DEFAULT_LANGUAGES"] = dl
    del TRIED[:]
    # the calls made just before are part of the witness (a selection remembered under the other ordering rule shows only then)
    case = {"kind": "compose", "string": s, "languages": langs, "use_given_order": ugo, "DEFAULT_LANGUAGES": dl,
            "prelude": list(_RECENT)}
    _RECENT.append({"string": s, "languages": list(langs), "use_given_order": ugo, "DEFAULT_LANGUAGES": dl})
    del _RECENT[:-3]
    try:
        m = DateDataParser(languages=langs, use_given_order=ugo, settings=st).get_date_data(s)
    except Exception as e:
        ctx.violation(case, e, "a DateData", "selection-raised", {"kind": "compose"})
        return
    ctx.ran()
    got = (m["date_obj"], m["period"], m["locale"])
    order = list(langs) if ugo else sorted(langs, key=language_order.index)
    exp = None
    for L in order:
        r = one(L, s)
        if isinstance(r[0], Exception):
            ctx.count("single-language raised (C02's subject)")
            return
        if r[0] is not None:
            exp = r
            break
    feats = {"kind": "compose", "ugo": ugo, "has_default": bool(dl)}
    if exp is not None:
        if got != exp:
            ctx.violation(dict(case, tried=list(TRIED)), got, exp, "composition", feats)
            return
        ctx.nontrivial(s, tuple(langs), ugo, tuple(dl or ()))
        ctx.count("composed:selected-language")
    else:
        # nothing selected succeeds: None, or a DEFAULT_LANGUAGES locale
        if got[0] is None:
            if got[2] is not None:
                ctx.violation(case, got, (None, "day", None), "locale-without-date", feats)
            ctx.count("composed:none")
            return
        if not dl or languages_of(got[2], language_order) not in dl:
            ctx.violation(dict(case, tried=list(TRIED)), got, "None or a DEFAULT_LANGUAGES locale", "locale-outside-selection", feats)
            return
        ctx.nontrivial(s, tuple(langs), ugo, tuple(dl or ()))
        ctx.count("composed:default-language-fallback")
    if got[2] is not None and languages_of(got[2], language_order) not in list(langs) + list(dl or []):
        ctx.violation(dict(case, tried=list(TRIED)), got[2], "a locale of the selection", "locale-outside-selection", feats)
    if dl and exp is not None:
        # DEFAULT_LANGUAGES never changes a result the selected languages already produce
        try:
            m0 = DateDataParser(languages=langs, use_given_order=ugo, settings={"RELATIVE_BASE": B}).get_date_data(s)
            if (m0["date_obj"], m0["period"], m0["locale"]) != got:
                ctx.violation(case, got, (m0["date_obj"], m0["period"], m0["locale"]), "default-languages-changed-result", feats)
        except Exception:
            pass


def one_loc(loc, s):
    from dateparser.date import DateDataParser

    k = ("loc", loc, s)
    if k not in _single:
        try:
            r = DateDataParser(locales=[loc], settings={"RELATIVE_BASE": B}).get_date_data(s)
            _single[k] = (r["date_obj"], r["period"], r["locale"])
        except Exception as e:
            _single[k] = (e, None, None)
    return _single[k]


def check_compose_locales(ctx, s, locs, ugo):
    """The same law for a `locales=` selection (locales of distinct languages): first successful single-locale result,
    in the priority order of their languages or in the given order; the reported locale is that very locale."""
    from dateparser.data.languages_info import language_order
    from dateparser.date import DateDataParser

    case = {"kind": "compose-locales", "string": s, "locales": locs, "use_given_order": ugo, "prelude": list(_RECENT)}
    _RECENT.append({"string": s, "locales": list(locs), "use_given_order": ugo})
    del _RECENT[:-3]
    try:
        m = DateDataParser(locales=list(locs), use_given_order=ugo, settings={"RELATIVE_BASE": B}).get_date_data(s)
    except Exception as e:
        ctx.violation(case, e, "a DateData", "selection-raised", {"kind": "compose-locales"})
        return
    ctx.ran()
    got = (m["date_obj"], m["period"], m["locale"])
    order = list(locs) if ugo else sorted(locs, key=lambda l: language_order.index(languages_of(l, language_order)))
    exp = (None, "day", None)
    for loc in order:
        r = one_loc(loc, s)
        if isinstance(r[0], Exception):
            ctx.count("single-language raised (C02's subject)")
            return
        if r[0] is not None:
            exp = r
            break
    if got[0] is None and exp[0] is None:
        ctx.count("composed-locales:none")
        return
    if got != exp:
        ctx.violation(case, got, exp, "composition", {"kind": "compose-locales", "ugo": ugo, "has_default": False})
        return
    ctx.nontrivial(s, tuple(locs), ugo, "locales")
    ctx.count("composed:selected-locale")


def check_previous_locales(ctx, strings, langs, ugo):
    """One long-lived parser with try_previous_locales=True: the locales that already produced a result are tried first, in
    the order they first succeeded, then the selection in its usual order.  The result must be that of the first language in
    that sequence whose single-language parse succeeds, and the reported locale always belongs to the selection."""
    from dateparser.data.languages_info import language_order
    from dateparser.date import DateDataParser

    base_order = list(langs) if ugo else sorted(langs, key=language_order.index)
    try:
        p = DateDataParser(languages=list(langs), use_given_order=ugo, try_previous_locales=True, settings={"RELATIVE_BASE": B})
    except Exception as e:
        ctx.violation({"kind": "previous-locales", "languages": langs, "use_given_order": ugo}, e, "a parser", "selection-raised",
                      {"kind": "previous-locales"})
        return
    prev, fed = [], []
    for s in strings:
        fed.append(s)
        case = {"kind": "previous-locales", "strings": list(fed), "languages": list(langs), "use_given_order": ugo}
        try:
            m = p.get_date_data(s)
        except Exception as e:
            ctx.violation(case, e, "a DateData", "selection-raised", {"kind": "previous-locales"})
            return
        ctx.ran()
        got = (m["date_obj"], m["period"], m["locale"])
        exp = (None, "day", None)
        for L in prev + [x for x in base_order if x not in prev]:
            r = one(L, s)
            if isinstance(r[0], Exception):
                ctx.count("single-language raised (C02's subject)")
                return
            if r[0] is not None:
                exp = r
                if L not in prev:
                    prev.append(L)
                break
        feats = {"kind": "previous-locales", "ugo": ugo, "has_default": False}
        if got[2] is not None and languages_of(got[2], language_order) not in langs:
            ctx.violation(case, got, "a locale of the selection", "locale-outside-selection", feats)
            return
        if got[0] is None and exp[0] is None:
            ctx.count("previous-locales:none")
            continue
        if got != exp:
            ctx.violation(dict(case, previous=list(prev)), got, exp, "composition", feats)
            return
        ctx.count("previous-locales:agreed")
        ctx.nontrivial("prev", tuple(fed[-3:]), tuple(langs), ugo)


def check_longlived_defaults(ctx, strings, langs, dl, ugo):
    """A parser kept for many strings (try_previous_locales off, the default) must answer each string as a parser made for
    that string alone does: which locales already produced results must not matter, for the selection or the
    DEFAULT_LANGUAGES fallback."""
    from dateparser.data.languages_info import language_order
    from dateparser.date import DateDataParser

    st = {"RELATIVE_BASE": B, "DEFAULT_LANGUAGES": list(dl)}
    try:
        p = DateDataParser(languages=list(langs), use_given_order=ugo, settings=st)
    except Exception:
        return
    fed = []
    for s in strings:
        fed.append(s)
        case = {"kind": "long-lived-defaults", "strings": list(fed), "languages": list(langs), "DEFAULT_LANGUAGES": list(dl),
                "use_given_order": ugo}
        try:
            m = p.get_date_data(s)
            f = DateDataParser(languages=list(langs), use_given_order=ugo, settings=st).get_date_data(s)
        except Exception:
            ctx.count("long-lived raised (C02's subject)")
            return
        ctx.ran()
        got, exp = (m["date_obj"], m["period"], m["locale"]), (f["date_obj"], f["period"], f["locale"])
        feats = {"kind": "long-lived-defaults", "ugo": ugo, "has_default": True}
        if got[2] is not None and languages_of(got[2], language_order) not in list(langs) + list(dl):
            ctx.violation(case, got, "a locale of the selection or of DEFAULT_LANGUAGES", "locale-outside-selection", feats)
            return
        if got != exp:
            ctx.violation(case, got, exp, "composition", feats)
            return
        ctx.count("long-lived-defaults:%s" % ("fallback" if got[2] and languages_of(got[2], language_order) in dl
                                              and languages_of(got[2], language_order) not in langs else "other"))
        ctx.nontrivial("lld", tuple(fed[-2:]), tuple(langs), tuple(dl), ugo)


def check_autodetect(ctx, s):
    from dateparser.date import DateDataParser

    try:
        a = DateDataParser(settings={"RELATIVE_BASE": B}).get_date_data(s)
    except Exception:
        ctx.count("autodetect raised (C02's subject)")
        return None
    ctx.ran()
    det = a["locale"]
    if det:
        r = one(det, s)
        if (r[0], r[1]) != (a["date_obj"], a["period"]) or r[2] != det:
            ctx.violation({"kind": "autodetect", "string": s, "detected": det}, r, (a["date_obj"], a["period"], det),
                          "autodetect-not-reproducible", {"kind": "autodetect"})
        else:
            ctx.nontrivial("auto", s)
            ctx.count("autodetect:reproduced")
    return det


def run_compose(ctx, desc):
    from dateparser.data.languages_info import language_locale_dict, language_order

    rnd = rng(ctx.seed, "C13", desc["i"])
    rows = corpus()[desc["i"]::desc["k"]]
    if ctx.tier == "quick":
        rows = rnd.sample(rows, min(len(rows), 110))
    nsub = 3 if ctx.tier == "quick" else 8
    for s, fn, lang in rows:
        det = check_autodetect(ctx, s)
        for t in range(nsub):
            langs = rnd.sample(language_order[:80], rnd.randrange(1, 6))
            if det and det in language_order and det not in langs and rnd.random() < 0.6:
                langs.insert(rnd.randrange(len(langs) + 1), det)
            ugo = rnd.random() < 0.5
            dl = rnd.choice([None, None, ["en"], ["fr", "en"]])
            check_compose(ctx, s, det, langs, ugo, dl)
            if t == 0:
                # a locales= selection: regional locales (or bare language codes) of distinct languages
                ls = rnd.sample(language_order[:60], rnd.randrange(2, 5))
                if det and det in language_order and det not in ls and rnd.random() < 0.6:
                    ls.insert(rnd.randrange(len(ls) + 1), det)
                locs = [rnd.choice(language_locale_dict[L]) if language_locale_dict[L] and rnd.random() < 0.7 else L for L in ls]
                for sx in (s, rnd.choice(["02/03/2015", "2015-02-13", "12/31/15 10:30", "1.2.2003"])):
                    check_compose_locales(ctx, sx, locs, ugo)
                    check_compose_locales(ctx, sx, locs, not ugo)
            if t == 0 and len(langs) > 1:
                # the same selection under the other ordering rule, and back: the order a selection is tried in
                # must depend on use_given_order of *this* call only
                check_compose(ctx, s, det, langs, not ugo, dl)
                check_compose(ctx, s, det, langs, ugo, dl)
    # long-lived parsers that try the previously successful locales first
    strs = [r[0] for r in rows]
    for t in range(12 if ctx.tier == "quick" else 60):
        picked = [r for r in rnd.sample(rows, min(len(rows), 4)) if r[2] in language_order]
        langs = list(dict.fromkeys([r[2] for r in picked] + rnd.sample(language_order[:40], rnd.randrange(1, 3))))
        feed = [r[0] for r in picked] * 2 + ["02/03/2015", "1.2.2003", rnd.choice(strs), "12/31/15 10:30", rnd.choice(strs)]
        rnd.shuffle(feed)
        check_previous_locales(ctx, feed, langs, rnd.random() < 0.5)
    # long-lived parsers whose strings are only read by the DEFAULT_LANGUAGES fallback (the selection does not know them)
    for t in range(10 if ctx.tier == "quick" else 50):
        picked = [r for r in rnd.sample(rows, min(len(rows), 6)) if r[2] in language_order][:3]
        if not picked:
            continue
        dl = list(dict.fromkeys(r[2] for r in picked))
        langs = [L for L in rnd.sample(language_order[40:120], 2) if L not in dl] or ["ja"]
        feed = [r[0] for r in picked] * 3
        rnd.shuffle(feed)
        check_longlived_defaults(ctx, feed, langs, dl, rnd.random() < 0.5)
    if desc["i"] == 0:
        zc = zone_word_cases()
        ctx.count("zone_word_cases", len(zc))
        for s, langs in zc:
            for ugo in (False, True):
                check_compose(ctx, s, None, langs, ugo, None)
                check_compose(ctx, s, None, list(reversed(langs)), ugo, None)
        for langs in (["fr", "en"], ["de", "en"], ["es", "en", "fr"], ["ja", "en"], ["ru", "fr", "en"]):
            for s in ("02/03/2015", "12 2015", "1.2.2003"):
                for ugo in (False, True, False, True):
                    check_compose(ctx, s, None, langs, ugo, None)
    ctx.sample({"strings": [r[0] for r in rows[:4]]})


def check_region(ctx, lang, loc, s):
    from dateparser.date import DateDataParser

    region = loc[len(lang) + 1:]
    st = {"RELATIVE_BASE": B}
    case = {"kind": "region", "language": lang, "region": region, "locale": loc, "string": s}
    try:
        a = DateDataParser(languages=[lang], region=region, settings=st).get_date_data(s)
        b = DateDataParser(locales=[loc], settings=st).get_date_data(s)
    except Exception as e:
        ctx.violation(case, e, "a DateData", "selection-raised", {"kind": "region"})
        return
    ctx.ran()
    ta, tb = (a["date_obj"], a["period"], a["locale"]), (b["date_obj"], b["period"], b["locale"])
    if ta != tb or (a["date_obj"] is not None and a["locale"] != loc):
        ctx.violation(case, ta, tb, "region-not-equal-to-locale", {"kind": "region", "locale": loc})
        return
    ctx.nontrivial("region", loc, s)
    ctx.count("region:equal")


def own_relative_strings(lang, loc, limit=3):
    """Strings instantiated from the relative-type-regex patterns that the regional locale lists itself (read from the shipped
    data file by the private loader), e.g. en-CA '2 wks ago'."""
    import re as _re
    from ..oracles import vocab

    spec = (vocab.language_data(lang).get("locale_specific", {}) or {}).get(loc, {}) or {}
    out = []
    for _canon, pats in (spec.get("relative-type-regex", {}) or {}).items():
        for p in pats:
            if p.count("(") == 1 and "(\\d+" in p:
                out.append(_re.sub(r"\(\\d\+[^)]*\)", "2", p))
    return sorted(set(out))[:limit]


def check_region_after_plain(ctx, lang, loc, s):
    """The regional selection (locales=[loc], and language+region) must give the same answer whether or not the plain
    language was used before with the same settings: asked first under settings never used with the plain language
    (regional first), then under another settings value after a plain-language call. The two settings values are unique to this
    locale and differ only in an extra SKIP_TOKENS entry that occurs in no string (the default is ['t']), so each has its own
    entry in every per-settings cache of the library and the same meaning."""
    from dateparser.date import DateDataParser

    region = loc[len(lang) + 1:]
    st1 = {"RELATIVE_BASE": B, "SKIP_TOKENS": ["t", loc + "-a"]}
    st2 = {"RELATIVE_BASE": B, "SKIP_TOKENS": ["t", loc + "-b"]}
    case = {"kind": "region-after-plain", "language": lang, "region": region, "locale": loc, "string": s}
    try:
        first = DateDataParser(locales=[loc], settings=st1).get_date_data(s)
        DateDataParser(languages=[lang], settings=st2).get_date_data(s)
        DateDataParser(languages=[lang], settings=st2).get_date_data("1 " + s)
        after = DateDataParser(locales=[loc], settings=st2).get_date_data(s)
        after_r = DateDataParser(languages=[lang], region=region, settings=st2).get_date_data(s)
    except Exception as e:
        ctx.violation(case, e, "a DateData", "selection-raised", {"kind": "region-after-plain"})
        return
    ctx.ran()
    t1, t2, t3 = [(x["date_obj"], x["period"], x["locale"]) for x in (first, after, after_r)]
    if t1 != t2 or t1 != t3:
        ctx.violation(case, {"after_plain_locales": t2, "after_plain_region": t3}, t1, "regional-selection-depends-on-history",
                      {"kind": "region-after-plain", "locale": loc})
        return
    if first["date_obj"] is not None:
        ctx.nontrivial("region-after-plain", loc, s)
    ctx.count("region-after-plain:equal")


def check_mixed(ctx, langs, region, s):
    from dateparser.data.languages_info import language_locale_dict, language_order
    from dateparser.date import DateDataParser

    st = {"RELATIVE_BASE": B}
    case = {"kind": "mixed-region", "languages": langs, "region": region, "string": s}
    try:
        m = DateDataParser(languages=langs, region=region, settings=st).get_date_data(s)
    except Exception as e:
        ctx.violation(case, e, "a DateData", "selection-raised", {"kind": "mixed-region"})
        return
    ctx.ran()
    valid = [L + "-" + region for L in langs if L + "-" + region in language_locale_dict[L]]
    if m["date_obj"] is None:
        ctx.count("mixed:none")
        return
    if m["locale"] is None or (m["locale"] not in valid and m["locale"] not in langs):
        ctx.violation(case, (m["date_obj"], m["period"], m["locale"]), {"locale_in": valid or langs},
                      "locale-outside-selection", {"kind": "mixed-region"})
        return
    # the result must be the one the reported locale alone produces
    b = DateDataParser(locales=[m["locale"]], settings=st).get_date_data(s)
    if (b["date_obj"], b["period"]) != (m["date_obj"], m["period"]):
        ctx.violation(case, (m["date_obj"], m["period"], m["locale"]), (b["date_obj"], b["period"], b["locale"]),
                      "region-not-equal-to-locale", {"kind": "mixed-region"})
        return
    ctx.nontrivial("mixed", tuple(langs), region, s)
    ctx.count("mixed:ok")


def check_region_only(ctx, region, locs):
    """A region given alone (no languages): only the locales of that region are used, through either entry point.  Asserted
    for regions whose locales all share one date order (read from the data files): a discriminating numeric date reads that way."""
    import dateparser
    from dateparser.date import DateDataParser
    from ..oracles import vocab

    orders = {vocab.locale_info(loc).get("date_order") or "MDY" for loc in locs}
    if len(orders) != 1:
        ctx.count("region_only:mixed-orders-skipped")
        return
    o = orders.pop()
    f = {"D": "03", "M": "02", "Y": "2015"}
    s = "/".join(f[c] for c in o)
    exp = datetime(2015, 2, 3)
    case = {"kind": "region-only", "region": region, "string": s, "order": o}
    for api in ("parse", "ddp"):
        try:
            if api == "parse":
                r = dateparser.parse(s, region=region)          # nothing but the region: the function entry point's own plumbing
            else:
                r = DateDataParser(region=region).get_date_data(s)["date_obj"]
        except Exception as e:
            r = e
        ctx.ran()
        if r != exp:
            ctx.violation(dict(case, api=api), r, exp, "region-conventions-not-applied", {"kind": "region-only", "api": api})
            return
    ctx.nontrivial("region-only", region)
    ctx.count("region_only:ok")


def zone_word_cases():
    """[(string, [languages])]: a numeric date followed by a zone abbreviation that is also a vocabulary word of one of the
    selected languages (the zone is popped for one language, read as a word by the other)."""
    from dateparser.data.languages_info import language_order
    from ..gen.common import tz_table
    from ..oracles import vocab

    abbrs = sorted({n for n, _ in tz_table() if n.isalpha() and 2 <= len(n) <= 5})
    out = []
    for lang in list(language_order)[:60]:
        try:
            mm = vocab.meaning_map(vocab.locale_info(lang, lang), True)
        except Exception:
            continue
        hits = [a for a in abbrs if a.lower() in mm]
        for a in hits[:3]:
            for other in ("en", "fr"):
                if other != lang:
                    out.append(("02/03/2015 10:00 %s" % a, [other, lang]))
    return out


def check_invalid_pair(ctx, lang, region, s):
    """languages=[L], region=R where L-R is not a locale: the selection is empty, so nothing may be reported (in particular
    not a locale of another language that merely shares L's prefix, such as zh-Hans-HK for zh + HK)."""
    from dateparser.date import DateDataParser

    case = {"kind": "invalid-pair", "language": lang, "region": region, "string": s}
    try:
        m = DateDataParser(languages=[lang], region=region, settings={"RELATIVE_BASE": B}).get_date_data(s)
    except Exception as e:
        ctx.violation(case, e, "a DateData", "selection-raised", {"kind": "invalid-pair"})
        return
    ctx.ran()
    if m["date_obj"] is not None or m["locale"] is not None:
        ctx.violation(case, (m["date_obj"], m["period"], m["locale"]), (None, "day", None), "locale-outside-selection",
                      {"kind": "invalid-pair"})
        return
    ctx.nontrivial("invalid-pair", lang, region, s)
    ctx.count("invalid_pair:none")


def own_named_date(lang):
    from ..oracles import vocab

    try:
        info = vocab.locale_info(lang, lang)
        for k in vocab.MONTHS[4:6] + vocab.MONTHS[:1]:
            for w in (info.get(k) or [])[:1]:
                if isinstance(w, str):
                    return "13 %s 2015" % w
    except Exception:
        pass
    return None


def run_regions(ctx, desc):
    from dateparser.data.languages_info import language_locale_dict, language_order

    pairs = [(lang, loc) for lang in language_order for loc in language_locale_dict[lang]][desc["i"]::desc["k"]]
    for lang, loc in pairs:
        for s in ("02/03/2015", "12 2015", "10:45"):
            check_region(ctx, lang, loc, s)
        for s in own_relative_strings(lang, loc):
            check_region(ctx, lang, loc, s)
            check_region_after_plain(ctx, lang, loc, s)
            ctx.count("own_relative_strings")
    ctx.count("region_pairs_walked", len(pairs))
    # invalid (language, region) pairs: regions of locales that only share the language's prefix, and two regions that
    # exist for other languages
    all_locs = [loc for L in language_order for loc in language_locale_dict[L]]
    other_regions = sorted({loc.rsplit("-", 1)[1] for loc in all_locs})
    rnd = rng(ctx.seed, "C13inv", desc["i"])
    for lang in list(language_order)[desc["i"]::desc["k"]]:
        valid = {loc[len(lang) + 1:] for loc in language_locale_dict[lang]}
        sib = sorted({loc.rsplit("-", 1)[1] for loc in all_locs if loc.startswith(lang + "-") and loc not in language_locale_dict[lang]})
        regions = [r for r in sib + rnd.sample(other_regions, 2) if r not in valid][:4]
        named = own_named_date(lang)
        for region in regions:
            for s in ["02/03/2015"] + ([named] if named else []):
                check_invalid_pair(ctx, lang, region, s)
    ctx.count("invalid_pair_languages", len(list(language_order)[desc["i"]::desc["k"]]))
    by_region = {}
    for loc in all_locs:
        by_region.setdefault(loc.rsplit("-", 1)[1], []).append(loc)
    for region in sorted(by_region)[desc["i"]::desc["k"]]:
        check_region_only(ctx, region, by_region[region])
    if desc["i"] == 0:
        for langs, region in ([["en", "fr"], "CA"], [["en", "fr"], "US"], [["fr", "en"], "BE"], [["de", "en", "fr"], "CH"],
                              [["en", "es"], "MX"], [["pt", "en"], "BR"], [["en", "fr"], "XX"], [["es", "en"], "IN"],
                              [["ar", "en"], "EG"], [["en", "de"], "AT"], [["nl", "fr", "en"], "BE"], [["en", "zh"], "HK"]):
            for s in ("02/03/2015", "12 May 2015", "12 mai 2015", "3 de marzo de 2011", "10:45", "yesterday", "hier", "gestern"):
                check_mixed(ctx, langs, region, s)
    ctx.sample({"region_pairs": pairs[:5]})


def run_shard(ctx, desc):
    import dateparser  # noqa

    install_tap()
    ac = AnchorCounter(ANCHORS).start()
    try:
        if desc["part"] == "compose":
            run_compose(ctx, desc)
        else:
            run_regions(ctx, desc)
    finally:
        ac.stop()
    for k, v in ac.counts.items():
        ctx.count("anchor:" + k, v)


def finalize(merged, tier, seed):
    c = merged["counters"]
    inc = []
    if c.get("composed:selected-language", 0) < 300:
        inc.append("composition law decided only %d non-None cases" % c.get("composed:selected-language", 0))
    if c.get("autodetect:reproduced", 0) < 200:
        inc.append("autodetect reproducibility decided only %d cases" % c.get("autodetect:reproduced", 0))
    if c.get("region_pairs_walked", 0) < 290:
        inc.append("region walk incomplete (%d pairs)" % c.get("region_pairs_walked", 0))
    if c.get("mixed:ok", 0) + c.get("violation:locale-outside-selection", 0) < 10:
        inc.append("mixed-validity region lists not exercised")
    return {"inconclusive": inc, "anchors_hit": {k[7:]: v for k, v in c.items() if k.startswith("anchor:")}}


def replay_case(ctx, v):
    install_tap()
    c = v["case"]
    if c["kind"] in ("compose", "compose-locales"):
        from dateparser.date import DateDataParser

        for pc in c.get("prelude") or []:
            st = {"RELATIVE_BASE": B}
            if pc.get("DEFAULT_LANGUAGES"):
                st["DEFAULT_LANGUAGES"] = pc["DEFAULT_LANGUAGES"]
            try:
                kw = {"locales": pc["locales"]} if pc.get("locales") else {"languages": pc["languages"]}
                DateDataParser(use_given_order=pc["use_given_order"], settings=st, **kw).get_date_data(pc["string"])
            except Exception:
                pass
        del _RECENT[:]
    if c["kind"] == "compose-locales":
        check_compose_locales(ctx, c["string"], c["locales"], c["use_given_order"])
    elif c["kind"] == "compose":
        check_compose(ctx, c["string"], None, c["languages"], c["use_given_order"], c["DEFAULT_LANGUAGES"])
    elif c["kind"] == "previous-locales":
        check_previous_locales(ctx, c["strings"], c["languages"], c["use_given_order"])
    elif c["kind"] == "long-lived-defaults":
        check_longlived_defaults(ctx, c["strings"], c["languages"], c["DEFAULT_LANGUAGES"], c["use_given_order"])
    elif c["kind"] == "autodetect":
        check_autodetect(ctx, c["string"])
    elif c["kind"] == "region":
        check_region(ctx, c["language"], c["locale"], c["string"])
    elif c["kind"] == "region-after-plain":
        check_region_after_plain(ctx, c["language"], c["locale"], c["string"])
    elif c["kind"] == "region-only":
        from dateparser.data.languages_info import language_locale_dict, language_order

        locs = [loc for L in language_order for loc in language_locale_dict[L] if loc.rsplit("-", 1)[1] == c["region"]]
        check_region_only(ctx, c["region"], locs)
    elif c["kind"] == "invalid-pair":
        check_invalid_pair(ctx, c["language"], c["region"], c["string"])
    else:
        check_mixed(ctx, c["languages"], c["region"], c["string"])
