# shim: RoundTripLoader on top of PyYAML with YAML 1.2 core-schema resolution
import importlib.util, sys, re
from collections import OrderedDict
def _load_pyyaml():
    if 'yaml' in sys.modules: return sys.modules['yaml']
    base='/usr/lib/python3/dist-packages/yaml'
    spec=importlib.util.spec_from_file_location('yaml',base+'/__init__.py',submodule_search_locations=[base])
    m=importlib.util.module_from_spec(spec); sys.modules['yaml']=m; spec.loader.exec_module(m); return m
yaml=_load_pyyaml()
from yaml.reader import Reader
from yaml.scanner import Scanner
from yaml.parser import Parser
from yaml.composer import Composer
from yaml.constructor import SafeConstructor
from yaml.resolver import BaseResolver
class _Resolver12(BaseResolver): pass
_Resolver12.yaml_implicit_resolvers={}
_Resolver12.add_implicit_resolver('tag:yaml.org,2002:bool', re.compile(r'^(?:true|True|TRUE|false|False|FALSE)$'), list('tTfF'))
_Resolver12.add_implicit_resolver('tag:yaml.org,2002:int', re.compile(r'^(?:[-+]?[0-9]+|0o[0-7]+|0x[0-9a-fA-F]+)$'), list('-+0123456789'))
_Resolver12.add_implicit_resolver('tag:yaml.org,2002:float', re.compile(r'^(?:[-+]?(?:\.[0-9]+|[0-9]+(?:\.[0-9]*)?)(?:[eE][-+]?[0-9]+)?|[-+]?\.(?:inf|Inf|INF)|\.(?:nan|NaN|NAN))$'), list('-+0123456789.'))
_Resolver12.add_implicit_resolver('tag:yaml.org,2002:null', re.compile(r'^(?:~|null|Null|NULL|)$'), ['~','n','N',''])
class _Ctor(SafeConstructor):
    def construct_yaml_map(self,node):
        d=OrderedDict(); yield d
        d.update(self.construct_pairs(node,deep=True))
    def construct_yaml_int(self,node):
        v=self.construct_scalar(node).replace('_','')
        if v.startswith('0o'): return int(v[2:],8)
        if v.startswith('0x'): return int(v[2:],16)
        return int(v)
_Ctor.add_constructor('tag:yaml.org,2002:map',_Ctor.construct_yaml_map)
_Ctor.add_constructor('tag:yaml.org,2002:int',_Ctor.construct_yaml_int)
class RoundTripLoader(Reader,Scanner,Parser,Composer,_Ctor,_Resolver12):
    def __init__(self,stream):
        Reader.__init__(self,stream); Scanner.__init__(self); Parser.__init__(self); Composer.__init__(self); _Ctor.__init__(self); _Resolver12.__init__(self)
    def get_data(self): return self.get_single_data()
