"""Controlled pre-emption of real threads at line granularity (sys.monitoring LINE).

One schedule = thread A runs a call and is suspended inside the LINE callback when it
is about to execute its k-th library line; thread B then runs its call to completion,
or until it makes no progress (it is blocked on something A holds); A resumes; both
are joined.  Every such thread switch is one CPython can produce between two lines."""
import sys
import threading
import time


class Scheduler:
    TOOL = 4

    def __init__(self, lib_prefix):
        self.prefix = lib_prefix
        self.mon = sys.monitoring
        self.a_tid = None
        self.b_tid = None
        self.k = None
        self.count = 0
        self.bcount = 0
        self.fired = False
        self.blocked = False
        self.loc = None
        self.run_b = None
        self.bthread = None
        self.locs = None          # when recording: list of (file, line) per count
        self.installed = False

    def install(self):
        if self.installed:
            return
        mon = self.mon
        mon.use_tool_id(self.TOOL, "rv-sched")
        mon.register_callback(self.TOOL, mon.events.LINE, self._on_line)
        mon.set_events(self.TOOL, mon.events.LINE)
        self.installed = True

    def uninstall(self):
        if not self.installed:
            return
        mon = self.mon
        mon.set_events(self.TOOL, 0)
        mon.register_callback(self.TOOL, mon.events.LINE, None)
        mon.free_tool_id(self.TOOL)
        self.installed = False

    def _on_line(self, code, line):
        if not code.co_filename.startswith(self.prefix):
            return self.mon.DISABLE
        tid = threading.get_ident()
        if tid == self.b_tid:
            self.bcount += 1
            return
        if tid != self.a_tid:
            return
        self.count += 1
        if self.locs is not None:
            self.locs.append((code.co_filename[len(self.prefix):], line))
        if self.k is not None and self.count == self.k and not self.fired:
            self.fired = True
            self.loc = (code.co_filename[len(self.prefix):], line)
            t = threading.Thread(target=self.run_b)
            self.bthread = t
            t.start()
            last = -1
            while t.is_alive():
                t.join(0.008)
                if t.is_alive():
                    if self.bcount == last:
                        self.blocked = True   # B made no progress over a poll: blocked on something A holds
                        break
                    last = self.bcount

    def run_alone(self, fn, record=False):
        """Run fn in the calling thread under the counter; return (result, line count, locations)."""
        self.a_tid = threading.get_ident()
        self.b_tid = None
        self.k = None
        self.count = 0
        self.locs = [] if record else None
        r = fn()
        locs, self.locs = self.locs, None
        self.a_tid = None
        return r, self.count, locs

    def schedule(self, fa, fb, k, timeout=60):
        """Run one schedule.  Returns dict(fired, blocked, loc, A, B, hung)."""
        res = {}

        def run_b():
            self.b_tid = threading.get_ident()
            try:
                res["B"] = fb()
            except BaseException as e:  # noqa
                res["B"] = ["harness-exc", repr(e)]

        def run_a():
            self.a_tid = threading.get_ident()
            try:
                res["A"] = fa()
            except BaseException as e:  # noqa
                res["A"] = ["harness-exc", repr(e)]

        self.run_b = run_b
        self.k, self.count, self.bcount = k, 0, 0
        self.fired = self.blocked = False
        self.b_tid = self.bthread = self.loc = None
        ta = threading.Thread(target=run_a)
        ta.start()
        ta.join(timeout)
        hung = ta.is_alive()
        if self.bthread is not None:
            self.bthread.join(timeout)
            hung = hung or self.bthread.is_alive()
        self.a_tid = self.b_tid = None
        return {"fired": self.fired, "blocked": self.blocked, "loc": self.loc, "A": res.get("A"), "B": res.get("B"),
                "hung": hung}
