"""Controlled pre-emption of real threads at line granularity (sys.monitoring LINE).

One schedule = thread A runs a call and is suspended inside the LINE callback when it
is about to execute its k-th library line; thread B then runs its call to completion,
or until it makes no progress (it is blocked on something A holds); A resumes; both
are joined.  Every such thread switch is one CPython can produce between two lines."""
import sys
import threading
import time


class Scheduler:
    TOOL = 4

    def __init__(self, lib_prefix):
        self.prefix = lib_prefix
        self.mon = sys.monitoring
        self.a_tid = None
        self.b_tid = None
        self.k = None
        self.count = 0
        self.bcount = 0
        self.fired = False
        self.blocked = False
        self.loc = None
        self.run_b = None
        self.bthread = None
        self.locs = None          # when recording: list of (file, line) per count
        self.installed = False
        self.b_pause_at = None
        self.b_fired = False
        self.b_loc = None
        self.b_paused = threading.Event()
        self.b_resume = threading.Event()

    def install(self):
        if self.installed:
            return
        mon = self.mon
        mon.use_tool_id(self.TOOL, "rv-sched")
        mon.register_callback(self.TOOL, mon.events.LINE, self._on_line)
        mon.set_events(self.TOOL, mon.events.LINE)
        self.installed = True

    def uninstall(self):
        if not self.installed:
            return
        mon = self.mon
        mon.set_events(self.TOOL, 0)
        mon.register_callback(self.TOOL, mon.events.LINE, None)
        mon.free_tool_id(self.TOOL)
        self.installed = False

    def _on_line(self, code, line):
        if not code.co_filename.startswith(self.prefix):
            return self.mon.DISABLE
        tid = threading.get_ident()
        if tid == self.b_tid:
            self.bcount += 1
            if self.b_pause_at is not None and self.bcount == self.b_pause_at and not self.b_fired:
                # second pre-emption (schedule2): B is suspended here until A has finished or is seen to wait for B
                self.b_fired = True
                self.b_loc = (code.co_filename[len(self.prefix):], line)
                self.b_paused.set()
                self.b_resume.wait(60)
            return
        if tid != self.a_tid:
            return
        self.count += 1
        if self.locs is not None:
            self.locs.append((code.co_filename[len(self.prefix):], line))
        if self.k is not None and self.count == self.k and not self.fired:
            self.fired = True
            self.loc = (code.co_filename[len(self.prefix):], line)
            t = threading.Thread(target=self.run_b)
            self.bthread = t
            t.start()
            last = -1
            while t.is_alive():
                t.join(0.008)
                if self.b_paused.is_set():
                    break                     # B reached its own pre-emption point: A goes on while B stays suspended
                if t.is_alive():
                    if self.bcount == last:
                        self.blocked = True   # B made no progress over a poll: blocked on something A holds
                        break
                    last = self.bcount

    def run_alone(self, fn, record=False):
        """Run fn in the calling thread under the counter; return (result, line count, locations)."""
        self.a_tid = threading.get_ident()
        self.b_tid = None
        self.k = None
        self.count = 0
        self.locs = [] if record else None
        r = fn()
        locs, self.locs = self.locs, None
        self.a_tid = None
        return r, self.count, locs

    def schedule(self, fa, fb, k, timeout=60, kb=None):
        """Run one schedule.  Returns dict(fired, blocked, loc, A, B, hung).  With kb, B is itself suspended when about to
        execute its kb-th library line, A then runs to completion (or until it waits for B), then B finishes."""
        res = {}
        self.a_waited_for_b = False

        def run_b():
            self.b_tid = threading.get_ident()
            try:
                res["B"] = fb()
            except BaseException as e:  # noqa
                res["B"] = ["harness-exc", repr(e)]

        def run_a():
            self.a_tid = threading.get_ident()
            try:
                res["A"] = fa()
            except BaseException as e:  # noqa
                res["A"] = ["harness-exc", repr(e)]

        self.run_b = run_b
        self.k, self.count, self.bcount = k, 0, 0
        self.fired = self.blocked = False
        self.b_tid = self.bthread = self.loc = None
        self.b_pause_at, self.b_fired, self.b_loc = kb, False, None
        self.b_paused, self.b_resume = threading.Event(), threading.Event()
        ta = threading.Thread(target=run_a)
        ta.start()
        if kb is None:
            ta.join(timeout)
        else:
            # two pre-emptions: once B is suspended A runs on; if A stops making progress (it waits for something the
            # suspended B holds) B is released, so that the schedule degenerates to "B first" instead of deadlocking
            t0, last, still = time.time(), -1, 0
            while ta.is_alive() and time.time() - t0 < timeout:
                ta.join(0.008)
                if ta.is_alive() and self.b_paused.is_set() and not self.b_resume.is_set():
                    still = still + 1 if self.count == last else 0
                    last = self.count
                    if still >= 2:
                        self.a_waited_for_b = True
                        self.b_resume.set()
            self.b_resume.set()
        hung = ta.is_alive()
        if self.bthread is not None:
            self.bthread.join(timeout)
            hung = hung or self.bthread.is_alive()
        self.a_tid = self.b_tid = None
        self.b_resume.set()
        return {"fired": self.fired, "blocked": self.blocked, "loc": self.loc, "A": res.get("A"), "B": res.get("B"),
                "hung": hung, "b_fired": self.b_fired, "b_loc": self.b_loc, "a_waited_for_b": self.a_waited_for_b}
